/-
  C02, multiply and divide — MULXU.B/W and DIVXU.B/W at handler level.

  For every encoding, register file and CCR: the handler leaves exactly the registers and flags the Spec
  prescribes (product of the low half of Rd and Rs, unsigned, no flag; quotient in the low half and remainder in
  the high half of Rd, N and Z from the divisor).  DIVXU is stated for a non-zero divisor (the manual leaves
  division by zero undefined; the Spec tags it and the case is out of the domain); a quotient that does not fit
  is *inside* the domain: both sides keep its low half.
-/
import H8.Props.C02
set_option linter.unusedSimpArgs false
namespace H8.Props.C02M
open H8 H8.Lemmas H8.Props

-- `h : (match costI … with | ok c1 s1 => match calcState … s1 with …) = ok c st'`: replaces `st'` by that state
set_option hygiene false in
local macro "cost2_subst" : tactic => `(tactic|
  (split at h
   case h_2 => simp at h
   case h_3 => simp at h
   rename_i c1 sa h1; have := costI_state h1; subst this
   split at h
   case h_2 => simp at h
   case h_3 => simp at h
   rename_i c2 sb h2; have := calcState_state h2; subst this
   injection h with _ h; subst h))

/-- MULXU.B Rs,Rd -/
theorem MULXU_B (op : BitVec 16) (st st' : Cpu) (c : BitVec 8) (i : Spec.Instr)
    (hi : Spec.instrOf .MULXU_B op 0 0 0 0 = some i) (h : mulxuB op st = .ok c st') :
    st' = { st with regs := (specRegCcr i st).1, ccr := (specRegCcr i st).2 } := by
  rw [Spec.instrOf_MULXU_B] at hi; simp only [Option.some.injEq] at hi; subst hi
  simp only [mulxuB, bind_ok, pure_ok, readRnB_nib, readRnW_nib, writeRnW_nib] at h
  cost2_subst
  simp only [specRegCcr, Spec.exec, getR8_eq, getR16_eq, setR16_eq]
  generalize st.regs = r; generalize st.ccr = cc
  have hd : nib op 4 = ((op.extractLsb' 0 4).setWidth 4).setWidth 8 := by simp only [nib]; bv_decide
  have hs : nib op 3 = ((op.extractLsb' 4 4).setWidth 4).setWidth 8 := by simp only [nib]; bv_decide
  have hm : ∀ x : BitVec 16, x &&& 255 = (x.setWidth 8).setWidth 16 := by intro x; bv_decide
  rw [hd, hs, hm]

/-- MULXU.W Rs,ERd -/
theorem MULXU_W (op : BitVec 16) (st st' : Cpu) (c : BitVec 8) (i : Spec.Instr)
    (hp : Spec.Form.pat .MULXU_W op 0 0 0 0 = true)
    (hi : Spec.instrOf .MULXU_W op 0 0 0 0 = some i) (h : mulxuW op st = .ok c st') :
    st' = { st with regs := (specRegCcr i st).1, ccr := (specRegCcr i st).2 } := by
  rw [Spec.instrOf_MULXU_W] at hi; simp only [Option.some.injEq] at hi; subst hi
  rw [Spec.pat_MULXU_W] at hp; simp only [Bool.and_eq_true, beq_iff_eq] at hp
  have h4 : (nib op 4).ule 7#8 = true := by (simp only [nib]; bv_decide)
  simp only [mulxuW, bind_ok, pure_ok, readRnW_nib, readRnL_ok _ _ h4, writeRnL_ok _ _ _ h4] at h
  cost2_subst
  simp only [specRegCcr, Spec.exec, getR16_eq, getER_eq, setER_eq]
  generalize st.regs = r; generalize st.ccr = cc
  have hd : nib op 4 = (Spec.lo3 (Spec.z4 ((op.extractLsb' 0 3).setWidth 3))).setWidth 8 := by
    simp only [nib, Spec.lo3, Spec.z4]; bv_decide
  have hs : nib op 3 = ((op.extractLsb' 4 4).setWidth 4).setWidth 8 := by simp only [nib]; bv_decide
  have hm : ∀ x : BitVec 32, x &&& 65535 = (x.setWidth 16).setWidth 32 := by intro x; bv_decide
  rw [hd, hs, hm]

theorem writeCcr_ite (bit : Nat) (b : Bool) (s : Cpu) :
    writeCcr bit (if b = true then 1 else 0) s = .ok () { s with ccr := changeCcrV s.ccr bit b } := by
  cases b
  · simp only [Bool.false_eq_true, if_false]; rw [writeCcr_zero]
  · simp only [if_true]; rw [writeCcr_one]

theorem nz_flags (cc : BitVec 8) (b1 b2 : Bool) :
    changeCcrV (changeCcrV cc 3 b1) 2 b2 = Spec.setFlag (Spec.setFlag cc 3 b1) 2 b2 := by
  cases b1 <;> cases b2 <;> simp only [changeCcrV, Spec.setFlag] <;> bv_decide

/-- DIVXU.B Rs,Rd (divisor not zero) -/
theorem DIVXU_B (op : BitVec 16) (st st' : Cpu) (c : BitVec 8) (i : Spec.Instr)
    (hi : Spec.instrOf .DIVXU_B op 0 0 0 0 = some i) (h : divxuB op st = .ok c st')
    (hnz : rdB st.regs (nib op 3) ≠ 0) :
    st' = { st with regs := (specRegCcr i st).1, ccr := (specRegCcr i st).2 } := by
  rw [Spec.instrOf_DIVXU_B] at hi; simp only [Option.some.injEq] at hi; subst hi
  simp only [divxuB, bind_ok, pure_ok, readRnB_nib, readRnW_nib, writeRnW_nib, writeCcr_ite] at h
  cost2_subst
  simp only [specRegCcr, Spec.exec, getR8_eq, getR16_eq, setR16_eq]
  generalize st.regs = r at hnz ⊢; generalize st.ccr = cc
  have hd : nib op 4 = ((op.extractLsb' 0 4).setWidth 4).setWidth 8 := by simp only [nib]; bv_decide
  have hs : nib op 3 = ((op.extractLsb' 4 4).setWidth 4).setWidth 8 := by simp only [nib]; bv_decide
  rw [hs] at hnz
  rw [hd, hs]
  have hb : (rdB r (((op.extractLsb' 4 4).setWidth 4).setWidth 8) == 0) = false := by simpa using hnz
  simp only [hb, Bool.false_eq_true, if_false, nz_flags]

/-- DIVXU.W Rs,ERd (divisor not zero) -/
theorem DIVXU_W (op : BitVec 16) (st st' : Cpu) (c : BitVec 8) (i : Spec.Instr)
    (hi : Spec.instrOf .DIVXU_W op 0 0 0 0 = some i) (h : divxuW op st = .ok c st')
    (hnz : rdW st.regs (nib op 3) ≠ 0) :
    st' = { st with regs := (specRegCcr i st).1, ccr := (specRegCcr i st).2 } := by
  rw [Spec.instrOf_DIVXU_W] at hi; simp only [Option.some.injEq] at hi; subst hi
  have h4 : (nib op 4 &&& 0b111).ule 7#8 = true := by (simp only [nib]; bv_decide)
  simp only [divxuW, bind_ok, pure_ok, readRnW_nib, readRnL_ok _ _ h4, writeRnL_ok _ _ _ h4, writeCcr_ite] at h
  cost2_subst
  simp only [specRegCcr, Spec.exec, getR16_eq, getER_eq, setER_eq]
  generalize st.regs = r at hnz ⊢; generalize st.ccr = cc
  have hd : nib op 4 &&& 0b111 = (Spec.lo3 (Spec.z4 ((op.extractLsb' 0 3).setWidth 3))).setWidth 8 := by
    simp only [nib, Spec.lo3, Spec.z4]; bv_decide
  have hs : nib op 3 = ((op.extractLsb' 4 4).setWidth 4).setWidth 8 := by simp only [nib]; bv_decide
  rw [hs] at hnz
  rw [hd, hs]
  have hb : (rdW r (((op.extractLsb' 4 4).setWidth 4).setWidth 8) == 0) = false := by simpa using hnz
  simp only [hb, Bool.false_eq_true, if_false, nz_flags]

end H8.Props.C02M
