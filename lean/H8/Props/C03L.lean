/-
  AND.L / OR.L / XOR.L ERs,ERd (two-word encodings 01F0 6xsd: the handler runs on the second word) and STC.B CCR,Rd at
  handler level: handler = Spec for every encoding, register file and CCR.
-/
import H8.Props.C03
set_option linter.unusedSimpArgs false
namespace H8.Props.C03L
open H8 H8.Lemmas H8.Props

set_option hygiene false in
local macro "logicL" il:ident pl:ident : tactic => `(tactic|
  (rw [$il:ident] at hi; simp only [Option.some.injEq] at hi; subst hi
   rw [$pl:ident] at hp; simp only [Bool.and_eq_true, beq_iff_eq] at hp
   have h3 : (nib op2 3).ule 7#8 = true := by (simp only [nib]; bv_decide)
   have h4 : (nib op2 4).ule 7#8 = true := by (simp only [nib]; bv_decide)
   simp only [logicRn, logicFlagsSz, logicFlags_ok, LOp.ap, readRn, writeRn, bind_ok, pure_ok, get_ok, readRnL_ok _ _ h3,
     readRnL_ok _ _ h4, writeRnL_ok _ _ _ h4, writeCcr_ite, writeCcr_zero, writeCcr_one, changeCcr_ok] at h
   have := costI_state h; subst this
   simp only [specRegCcr, Spec.exec, Spec.alu2At, Spec.alu2K, Spec.getReg, Spec.setReg, getER_eq, setER_eq, Option.map]
   generalize st.regs = r; generalize st.ccr = cc
   congr 1
   all_goals (
     simp only [nib, getEr, setEr, shOf, Spec.nzClearV, Spec.setFlag, Spec.flag, changeCcrV, Spec.z4, Spec.lo3]
     bv_decide)))

theorem AND_L_RR (op op2 : BitVec 16) (st st' : Cpu) (c : BitVec 8) (i : Spec.Instr)
    (hp : Spec.Form.pat .AND_L_RR op op2 0 0 0 = true)
    (hi : Spec.instrOf .AND_L_RR op op2 0 0 0 = some i) (h : logicRn .and .L op2 2 st = .ok c st') :
    st' = { st with regs := (specRegCcr i st).1, ccr := (specRegCcr i st).2 } := by
  logicL Spec.instrOf_AND_L_RR Spec.pat_AND_L_RR

theorem OR_L_RR (op op2 : BitVec 16) (st st' : Cpu) (c : BitVec 8) (i : Spec.Instr)
    (hp : Spec.Form.pat .OR_L_RR op op2 0 0 0 = true)
    (hi : Spec.instrOf .OR_L_RR op op2 0 0 0 = some i) (h : logicRn .or .L op2 2 st = .ok c st') :
    st' = { st with regs := (specRegCcr i st).1, ccr := (specRegCcr i st).2 } := by
  logicL Spec.instrOf_OR_L_RR Spec.pat_OR_L_RR

theorem XOR_L_RR (op op2 : BitVec 16) (st st' : Cpu) (c : BitVec 8) (i : Spec.Instr)
    (hp : Spec.Form.pat .XOR_L_RR op op2 0 0 0 = true)
    (hi : Spec.instrOf .XOR_L_RR op op2 0 0 0 = some i) (h : logicRn .xor .L op2 2 st = .ok c st') :
    st' = { st with regs := (specRegCcr i st).1, ccr := (specRegCcr i st).2 } := by
  logicL Spec.instrOf_XOR_L_RR Spec.pat_XOR_L_RR

/-- STC.B CCR,Rd: the byte register receives all eight CCR bits; CCR itself and everything else is unchanged -/
theorem STC_B (op : BitVec 16) (st st' : Cpu) (c : BitVec 8) (i : Spec.Instr)
    (hi : Spec.instrOf .STC_B op 0 0 0 0 = some i) (h : stcB op st = .ok c st') :
    st' = { st with regs := (specRegCcr i st).1, ccr := (specRegCcr i st).2 } := by
  rw [Spec.instrOf_STC_B] at hi; simp only [Option.some.injEq] at hi; subst hi
  simp only [stcB, bind_ok, get_ok, writeRnB_nib] at h
  have := costI_state h; subst this
  simp only [specRegCcr, Spec.exec, setR8_eq]
  generalize st.regs = r; generalize st.ccr = cc
  congr 1
  simp only [nib, wrB, getEr, setEr, shOf]
  bv_decide

end H8.Props.C03L
