/-
  C01, memory forms — MOV.B @ERs,Rd and MOV.B Rs,@ERd at handler level: the byte moved is the byte at the
  operand's effective address (low 24 bits of the address register) as the Spec's memory view (`peek` /
  `poke` over the five regions of C09) sees it; N, Z from the value, V cleared, nothing else changes.
  For every encoding of the form, every register file, every CCR and every memory content.
-/
import H8.Props.Common
import H8.Lemmas.Cost
import H8.Lemmas.PeekPoke
set_option linter.unusedSimpArgs false
namespace H8.Props.C01M
open H8 H8.Lemmas H8.Props

/-- the model's masked 32-bit address and the Spec's 24-bit effective address name the same byte -/
theorem addr_toNat (x : BitVec 32) : (x &&& ADDRESS_MASK).toNat = ((x.setWidth 24).toNat + 0) % 2 ^ 24 := by
  have e : x &&& ADDRESS_MASK = (x.setWidth 24).setWidth 32 := by unfold ADDRESS_MASK; bv_decide
  rw [e]
  have hlt := (x.setWidth 24).isLt
  simp only [BitVec.toNat_setWidth, Nat.add_zero]
  omega

theorem loadBE_one (b : Bus) (a : BitVec 24) : Spec.loadBE b a 1 = (Spec.peek b ((a.toNat + 0) % 2 ^ 24)).setWidth 32 := by
  simp [Spec.loadBE, Spec.bytesAt]

-- tail of a memory MOV: two cost lookups that leave the state alone; replaces `st'` by the state before them
set_option hygiene false in
local macro "movcost_subst" : tactic => `(tactic|
  (split at h
   case h_2 => simp at h
   case h_3 => simp at h
   rename_i c1 sa h1; have := costI_state h1; subst this
   split at h
   case h_2 => simp at h
   case h_3 => simp at h
   rename_i c2 sb2 h2; have := calcStateWithAddr_state h2; subst this
   injection h with _ h; subst h))

/-- MOV.B @ERs,Rd -/
theorem MOV_B_LD_IND (op : BitVec 16) (st st' : Cpu) (c : BitVec 8) (i : Spec.Instr)
    (hp : Spec.Form.pat .MOV_B_LD_IND op 0 0 0 0 = true)
    (hi : Spec.instrOf .MOV_B_LD_IND op 0 0 0 0 = some i) (h : movErn .B op st = .ok c st') :
    st' = { st with regs := (specRegCcr i st).1, ccr := (specRegCcr i st).2 } := by
  rw [Spec.instrOf_MOV_B_LD_IND] at hi; simp only [Option.some.injEq] at hi; subst hi
  rw [Spec.pat_MOV_B_LD_IND] at hp; simp only [Bool.and_eq_true, beq_iff_eq] at hp
  have hdir : (op &&& 0x0080 == 0) = true := by bv_decide
  have h3 : (nib op 3).ule 7#8 = true := by (simp only [nib]; bv_decide)
  simp only [movErn, hdir, if_true, getAddrErn, readMem, bind_ok, pure_ok, readRnL_ok _ _ h3] at h
  split at h
  case h_2 => simp at h
  case h_3 => simp at h
  rename_i v s1 hb
  split at hb
  case h_2 => simp at hb
  case h_3 => simp at hb
  rename_i vb sb hbb
  simp only [Res.ok.injEq] at hb
  obtain ⟨hv, hs1⟩ := hb
  subst hv; subst hs1
  obtain ⟨e1, e2, _⟩ := busRead_peek _ _ _ _ hbb
  subst e1
  simp only [writeRn, movPccSz, movPcc, writeRnB_nib, bind_ok, pure_ok, changeCcr_ok, writeCcr_zero, iBase, Sz.dataKind,
    Sz.dataCount] at h
  movcost_subst
  simp only [specRegCcr, Spec.exec, Spec.getReg, Spec.setReg, Spec.movFlags, Spec.eaOf, Spec.eaRegs, getR8_eq, setR8_eq,
    getER_eq, loadBE_one, Spec.Sz.bytes]
  have hidx : (BitVec.setWidth 8 (BitVec.setWidth 3 (BitVec.extractLsb' 4 3 op))) = nib op 3 := by
    simp only [nib]; bv_decide
  rw [hidx]
  rw [addr_toNat] at e2
  rw [← e2]
  generalize sb.regs = r; generalize sb.ccr = cc
  congr 1
  all_goals (
    simp only [nib, rdB, wrB, getEr, setEr, shOf, Spec.nzClearV, Spec.setFlag, changeCcrV, Spec.z4, Spec.zx8, Spec.lo3]
    bv_decide)

/-- (regs, ccr, bus) the Spec prescribes for an instruction that may store to memory -/
def specRegCcrBus (i : Spec.Instr) (st : Cpu) : Regs × BitVec 8 × Bus :=
  match Spec.exec .UNDEF i 0 0 st with
  | .valid _ e => (e.cpu.regs, e.cpu.ccr, e.cpu.bus)
  | _ => (st.regs, st.ccr, st.bus)

theorem storeBE_one (b : Bus) (a : BitVec 24) (v : BitVec 32) :
    Spec.storeBE b a 1 v = Spec.poke b ((a.toNat + 0) % 2 ^ 24) (v.setWidth 8) := by
  simp [Spec.storeBE, Spec.bytesAt, List.zipIdx]

/-- MOV.B Rs,@ERd to any address that is not a special-function register (ports and 8TCR0 are C16 / C17):
    exactly the addressed byte of the Spec's memory view changes, to the low byte of Rs -/
theorem MOV_B_ST_IND (op : BitVec 16) (st st' : Cpu) (c : BitVec 8) (i : Spec.Instr)
    (hp : Spec.Form.pat .MOV_B_ST_IND op 0 0 0 0 = true)
    (hi : Spec.instrOf .MOV_B_ST_IND op 0 0 0 0 = some i) (h : movErn .B op st = .ok c st')
    (hsfr : Spec.isSfr (getEr st.regs (nib op 3 &&& 7) &&& ADDRESS_MASK).toNat = false) :
    st' = { st with regs := (specRegCcrBus i st).1, ccr := (specRegCcrBus i st).2.1, bus := (specRegCcrBus i st).2.2 } := by
  rw [Spec.instrOf_MOV_B_ST_IND] at hi; simp only [Option.some.injEq] at hi; subst hi
  rw [Spec.pat_MOV_B_ST_IND] at hp; simp only [Bool.and_eq_true, beq_iff_eq] at hp
  have hdir : (op &&& 0x0080 == 0) = false := by bv_decide
  have h3 : (nib op 3 &&& 7).ule 7#8 = true := by (simp only [nib]; bv_decide)
  simp only [movErn, hdir, Bool.false_eq_true, if_false, getAddrErn, writeMem, readRn, bind_ok, pure_ok, readRnL_ok _ _ h3,
    readRnB_nib] at h
  split at h
  case h_2 => simp at h
  case h_3 => simp at h
  rename_i u s1 hw
  have e1 := busWrite_poke _ _ _ _ hw hsfr
  subst e1
  simp only [movPccSz, movPcc, bind_ok, pure_ok, changeCcr_ok, writeCcr_zero, iBase, Sz.dataKind, Sz.dataCount] at h
  movcost_subst
  simp only [specRegCcrBus, Spec.exec, Spec.getReg, Spec.setReg, Spec.movFlags, Spec.eaOf, Spec.eaRegs, getR8_eq, setR8_eq,
    getER_eq, storeBE_one, Spec.Sz.bytes]
  have hidx : (BitVec.setWidth 8 (BitVec.setWidth 3 (BitVec.extractLsb' 4 3 op))) = nib op 3 &&& 7 := by
    simp only [nib]; bv_decide
  rw [hidx, ← addr_toNat]
  generalize hA : (getEr st.regs (nib op 3 &&& 7) &&& ADDRESS_MASK).toNat = A
  generalize st.regs = r; generalize st.ccr = cc; generalize st.bus = bus
  congr 1
  all_goals (
    try (congr 1)
    all_goals (
      simp only [nib, rdB, wrB, getEr, setEr, shOf, Spec.nzClearV, Spec.setFlag, changeCcrV, Spec.z4, Spec.zx8, Spec.lo3]
      bv_decide))

/-! ### @aa:8 -/

theorem abs8_toNat (x : BitVec 8) : (getAddrAbs8 x).toNat = (((0xffff00#24 ||| x.setWidth 24)).toNat + 0) % 2 ^ 24 := by
  have e : getAddrAbs8 x = (0xffff00#24 ||| x.setWidth 24).setWidth 32 := by unfold getAddrAbs8; bv_decide
  rw [e]
  have hlt := (0xffff00#24 ||| x.setWidth 24).isLt
  simp only [BitVec.toNat_setWidth, Nat.add_zero]
  omega

/-- MOV.B @aa:8,Rd -/
theorem MOV_B_LD_AA8 (op : BitVec 16) (st st' : Cpu) (c : BitVec 8) (i : Spec.Instr)
    (hp : Spec.Form.pat .MOV_B_LD_AA8 op 0 0 0 0 = true)
    (hi : Spec.instrOf .MOV_B_LD_AA8 op 0 0 0 0 = some i) (h : movBAbs8 op st = .ok c st') :
    st' = { st with regs := (specRegCcr i st).1, ccr := (specRegCcr i st).2 } := by
  rw [Spec.instrOf_MOV_B_LD_AA8] at hi; simp only [Option.some.injEq] at hi; subst hi
  rw [Spec.pat_MOV_B_LD_AA8] at hp; simp only [Bool.and_eq_true, beq_iff_eq] at hp
  have hdir : (op &&& 0xf000 == 0x2000) = true := by bv_decide
  simp only [movBAbs8, hdir, if_true, bind_ok, pure_ok] at h
  split at h
  case h_2 => simp at h
  case h_3 => simp at h
  rename_i vb s0 hbb
  obtain ⟨e1, e2, _⟩ := busRead_peek _ _ _ _ hbb
  subst e1
  simp only [movPcc, writeRnB_nib, bind_ok, pure_ok, changeCcr_ok, writeCcr_zero] at h
  movcost_subst
  simp only [specRegCcr, Spec.exec, Spec.getReg, Spec.setReg, Spec.movFlags, Spec.eaOf, Spec.eaRegs, getR8_eq, setR8_eq,
    getER_eq, loadBE_one, Spec.Sz.bytes]
  rw [abs8_toNat] at e2
  have hx : BitVec.setWidth 8 op = BitVec.setWidth 8 (BitVec.extractLsb' 0 8 op) := by bv_decide
  rw [hx] at e2
  rw [← e2]
  generalize s0.regs = r; generalize s0.ccr = cc
  congr 1
  all_goals (
    simp only [nib, rdB, wrB, getEr, setEr, shOf, Spec.nzClearV, Spec.setFlag, changeCcrV, Spec.z4, Spec.zx8, Spec.lo3]
    bv_decide)

/-! ### word: big-endian composition of two byte reads -/

theorem regionOf_lt (n : Nat) (h : Spec.regionOf n ≠ .none) : n < 2 ^ 24 := by
  unfold Spec.regionOf at h
  by_cases h1 : n ≤ 0xff
  · omega
  · by_cases h2 : 0x400000 ≤ n ∧ n ≤ 0x5fffff
    · omega
    · by_cases h3 : 0xfee000 ≤ n ∧ n ≤ 0xfee0ff
      · omega
      · by_cases h4 : 0xffbf20 ≤ n ∧ n ≤ 0xffff1f
        · omega
        · by_cases h5 : 0xffff20 ≤ n ∧ n ≤ 0xffffe9
          · omega
          · simp [h1, h2, h3, h4, h5] at h

theorem addr1_toNat (x : BitVec 32) (hm : Spec.regionOf ((x &&& ADDRESS_MASK) + 1).toNat ≠ .none) :
    ((x &&& ADDRESS_MASK) + 1).toNat = ((x.setWidth 24).toNat + 1) % 2 ^ 24 := by
  have hlt := regionOf_lt _ hm
  have e : x &&& ADDRESS_MASK = (x.setWidth 24).setWidth 32 := by unfold ADDRESS_MASK; bv_decide
  rw [e] at hlt ⊢
  have hy := (x.setWidth 24).isLt
  have h1 : (1 : BitVec 32).toNat = 1 := by decide
  simp only [BitVec.toNat_add, BitVec.toNat_setWidth, BitVec.toNat_ofNat, h1] at hlt ⊢
  omega

theorem loadBE_two (b : Bus) (a : BitVec 24) :
    Spec.loadBE b a 2 =
      ((Spec.peek b ((a.toNat + 0) % 2 ^ 24)).setWidth 32 <<< 8) ||| (Spec.peek b ((a.toNat + 1) % 2 ^ 24)).setWidth 32 := by
  simp [Spec.loadBE, Spec.bytesAt, List.range, List.range.loop]

/-- MOV.W @ERs,Rd: the word is the big-endian composition of the bytes at the effective address and the next one -/
theorem MOV_W_LD_IND (op : BitVec 16) (st st' : Cpu) (c : BitVec 8) (i : Spec.Instr)
    (hp : Spec.Form.pat .MOV_W_LD_IND op 0 0 0 0 = true)
    (hi : Spec.instrOf .MOV_W_LD_IND op 0 0 0 0 = some i) (h : movErn .W op st = .ok c st') :
    st' = { st with regs := (specRegCcr i st).1, ccr := (specRegCcr i st).2 } := by
  rw [Spec.instrOf_MOV_W_LD_IND] at hi; simp only [Option.some.injEq] at hi; subst hi
  rw [Spec.pat_MOV_W_LD_IND] at hp; simp only [Bool.and_eq_true, beq_iff_eq] at hp
  have hdir : (op &&& 0x0080 == 0) = true := by bv_decide
  have h3 : (nib op 3).ule 7#8 = true := by (simp only [nib]; bv_decide)
  simp only [movErn, hdir, if_true, getAddrErn, readMem, readAbs24W, bind_ok, pure_ok, readRnL_ok _ _ h3] at h
  split at h
  case h_2 => simp at h
  case h_3 => simp at h
  rename_i v s1 hb
  -- the two byte reads
  split at hb
  case h_2 => simp at hb
  case h_3 => simp at hb
  rename_i w16 sw hw
  split at hw
  case h_2 => simp at hw
  case h_3 => simp at hw
  rename_i vhi sh hhi
  obtain ⟨eh1, eh2, _⟩ := busRead_peek _ _ _ _ hhi
  subst eh1
  split at hw
  case h_2 => simp at hw
  case h_3 => simp at hw
  rename_i vlo sl hlo
  obtain ⟨el1, el2, hml⟩ := busRead_peek _ _ _ _ hlo
  subst el1
  simp only [Res.ok.injEq] at hw
  obtain ⟨hw1, hw2⟩ := hw
  subst hw1; subst hw2
  simp only [Res.ok.injEq] at hb
  obtain ⟨hb1, hb2⟩ := hb
  subst hb1; subst hb2
  simp only [writeRn, movPccSz, movPcc, writeRnW_nib, bind_ok, pure_ok, changeCcr_ok, writeCcr_zero, iBase, Sz.dataKind,
    Sz.dataCount] at h
  movcost_subst
  simp only [specRegCcr, Spec.exec, Spec.getReg, Spec.setReg, Spec.movFlags, Spec.eaOf, Spec.eaRegs, getR16_eq, setR16_eq,
    getER_eq, loadBE_two, Spec.Sz.bytes]
  have hidx : (BitVec.setWidth 8 (BitVec.setWidth 3 (BitVec.extractLsb' 4 3 op))) = nib op 3 := by
    simp only [nib]; bv_decide
  rw [hidx]
  rw [addr_toNat] at eh2
  rw [addr1_toNat _ hml] at el2
  rw [← eh2, ← el2]
  generalize sl.regs = r; generalize sl.ccr = cc
  congr 1
  all_goals (
    simp only [nib, rdW, wrW, getEr, setEr, shOf, Spec.nzClearV, Spec.setFlag, changeCcrV, Spec.z4, Spec.zx16, Spec.lo3]
    bv_decide)

end H8.Props.C01M
