/-
  C08 at handler level, word operands — MOV.W through `@(d:16,ERn)` and `@aa:16`, load and store: the word is the
  big-endian composition of the two bytes at the effective address the manual defines (ERn + sign-extended d modulo
  2^24; aa:16 sign-extended) in the Spec's memory view; a store is exactly the Spec's two `poke`s.  Relative to the
  state after the displacement / address word has been fetched.
-/
import H8.Props.C08D
set_option linter.unusedSimpArgs false
namespace H8.Props.C08W
open H8 H8.Lemmas H8.Props H8.Props.C01M H8.Props.C01N H8.Props.C08D

set_option hygiene false in
local macro "movcost_subst" : tactic => `(tactic|
  (split at h
   case h_2 => simp at h
   case h_3 => simp at h
   rename_i c1 sa h1; have := costI_state h1; subst this
   split at h
   case h_2 => simp at h
   case h_3 => simp at h
   rename_i c2 sb2 h2; have := calcStateWithAddr_state h2; subst this
   injection h with _ h; subst h))

theorem sum24 (x : BitVec 32) (d : BitVec 16) : (x + d.signExtend 32).setWidth 24 = x.setWidth 24 + d.signExtend 24 := by
  bv_decide

/-- the second byte of a word at ERn + d -/
theorem disp16_1_toNat (x : BitVec 32) (d : BitVec 16)
    (hm : Spec.regionOf (((x + d.signExtend 32) &&& ADDRESS_MASK) + 1).toNat ≠ .none) :
    (((x + d.signExtend 32) &&& ADDRESS_MASK) + 1).toNat = ((x.setWidth 24 + d.signExtend 24).toNat + 1) % 2 ^ 24 := by
  rw [addr1_toNat _ hm, sum24]

/-- MOV.W @(d:16,ERs),Rd -/
theorem MOV_W_LD_D16 (op d : BitVec 16) (st s1 st' : Cpu) (c : BitVec 8) (i : Spec.Instr)
    (hp : Spec.Form.pat .MOV_W_LD_D16 op d 0 0 0 = true)
    (hi : Spec.instrOf .MOV_W_LD_D16 op d 0 0 0 = some i) (hf : fetch st = .ok d s1)
    (h : movDisp16 .W op st = .ok c st') :
    st' = { s1 with regs := (specRegCcr i s1).1, ccr := (specRegCcr i s1).2 } := by
  rw [Spec.instrOf_MOV_W_LD_D16] at hi; simp only [Option.some.injEq] at hi; subst hi
  rw [Spec.pat_MOV_W_LD_D16] at hp; simp only [Bool.and_eq_true, beq_iff_eq] at hp
  have hdir : (op &&& 0x0080 == 0) = true := by bv_decide
  have h3 : (nib op 3).ule 7#8 = true := by (simp only [nib]; bv_decide)
  simp only [movDisp16, bind_ok, hf, hdir, if_true, getAddrDisp16, readMem, readAbs24W, pure_ok, readRnL_ok _ _ h3] at h
  split at h
  case h_2 => simp at h
  case h_3 => simp at h
  rename_i v s2 hb
  split at hb
  case h_2 => simp at hb
  case h_3 => simp at hb
  rename_i w16 sw hw
  split at hw
  case h_2 => simp at hw
  case h_3 => simp at hw
  rename_i vhi sh hhi
  obtain ⟨eh1, eh2, _⟩ := busRead_peek _ _ _ _ hhi
  subst eh1
  split at hw
  case h_2 => simp at hw
  case h_3 => simp at hw
  rename_i vlo sl hlo
  obtain ⟨el1, el2, hml⟩ := busRead_peek _ _ _ _ hlo
  subst el1
  simp only [Res.ok.injEq] at hw
  obtain ⟨hw1, hw2⟩ := hw
  subst hw1; subst hw2
  simp only [Res.ok.injEq] at hb
  obtain ⟨hb1, hb2⟩ := hb
  subst hb1; subst hb2
  simp only [writeRn, movPccSz, movPcc, writeRnW_nib, bind_ok, pure_ok, changeCcr_ok, writeCcr_zero, iBase, Sz.dataKind,
    Sz.dataCount] at h
  movcost_subst
  simp only [specRegCcr, Spec.exec, Spec.getReg, Spec.setReg, Spec.movFlags, Spec.eaOf, Spec.eaRegs, getR16_eq, setR16_eq,
    getER_eq, loadBE_two, Spec.Sz.bytes, x16]
  have hidx : (BitVec.setWidth 8 (BitVec.setWidth 3 (BitVec.extractLsb' 4 3 op))) = nib op 3 := by
    simp only [nib]; bv_decide
  rw [hidx]
  rw [disp16_toNat] at eh2
  rw [disp16_1_toNat _ _ hml] at el2
  rw [← eh2, ← el2]
  generalize sl.regs = r; generalize sl.ccr = cc
  congr 1
  all_goals (
    simp only [nib, rdW, wrW, getEr, setEr, shOf, Spec.nzClearV, Spec.setFlag, changeCcrV, Spec.z4, Spec.zx16, Spec.lo3]
    bv_decide)

/-- MOV.W Rs,@(d:16,ERd) -/
theorem MOV_W_ST_D16 (op d : BitVec 16) (st s1 st' : Cpu) (c : BitVec 8) (i : Spec.Instr)
    (hp : Spec.Form.pat .MOV_W_ST_D16 op d 0 0 0 = true)
    (hi : Spec.instrOf .MOV_W_ST_D16 op d 0 0 0 = some i) (hf : fetch st = .ok d s1)
    (h : movDisp16 .W op st = .ok c st')
    (hsfr0 : Spec.isSfr ((getEr s1.regs (nib op 3 &&& 7) + d.signExtend 32) &&& ADDRESS_MASK).toNat = false)
    (hsfr1 : Spec.isSfr (((getEr s1.regs (nib op 3 &&& 7) + d.signExtend 32) &&& ADDRESS_MASK) + 1).toNat = false) :
    st' = { s1 with regs := (specRegCcrBus i s1).1, ccr := (specRegCcrBus i s1).2.1, bus := (specRegCcrBus i s1).2.2 } := by
  rw [Spec.instrOf_MOV_W_ST_D16] at hi; simp only [Option.some.injEq] at hi; subst hi
  rw [Spec.pat_MOV_W_ST_D16] at hp; simp only [Bool.and_eq_true, beq_iff_eq] at hp
  have hdir : (op &&& 0x0080 == 0) = false := by bv_decide
  have h3 : (nib op 3 &&& 7).ule 7#8 = true := by (simp only [nib]; bv_decide)
  simp only [movDisp16, bind_ok, hf, hdir, Bool.false_eq_true, if_false, getAddrDisp16, writeMem, writeAbs24W, readRn, pure_ok,
    readRnL_ok _ _ h3, readRnW_nib] at h
  split at h
  case h_2 => simp at h
  case h_3 => simp at h
  rename_i u s2 hw
  split at hw
  case h_2 => simp at hw
  case h_3 => simp at hw
  rename_i u0 s0 hw0
  have e0 := busWrite_poke _ _ _ _ hw0 hsfr0
  subst e0
  have hm1 := busWrite_mapped _ _ _ _ hw
  have e1 := busWrite_poke _ _ _ _ hw hsfr1
  subst e1
  simp only [movPccSz, movPcc, bind_ok, pure_ok, changeCcr_ok, writeCcr_zero, iBase, Sz.dataKind, Sz.dataCount] at h
  movcost_subst
  simp only [specRegCcrBus, Spec.exec, Spec.getReg, Spec.setReg, Spec.movFlags, Spec.eaOf, Spec.eaRegs, getR16_eq, setR16_eq,
    getER_eq, storeBE_two, Spec.Sz.bytes, x16]
  have hidx : (BitVec.setWidth 8 (BitVec.setWidth 3 (BitVec.extractLsb' 4 3 op))) = nib op 3 &&& 7 := by
    simp only [nib]; bv_decide
  rw [hidx, ← disp16_toNat, ← disp16_1_toNat _ _ hm1]
  generalize hA : ((getEr s1.regs (nib op 3 &&& 7) + d.signExtend 32) &&& ADDRESS_MASK).toNat = A
  generalize hB : (((getEr s1.regs (nib op 3 &&& 7) + d.signExtend 32) &&& ADDRESS_MASK) + 1).toNat = B
  generalize s1.regs = r; generalize s1.ccr = cc; generalize s1.bus = bus
  have hd : nib op 4 = ((op.extractLsb' 0 4).setWidth 4).setWidth 8 := by simp only [nib]; bv_decide
  rw [hd]
  generalize rdW r _ = w
  have e1 : BitVec.setWidth 8 (BitVec.setWidth 16 (BitVec.setWidth 32 w) >>> 8) = BitVec.setWidth 8 (BitVec.setWidth 32 w >>> 8) := by
    bv_decide
  have e2 : BitVec.setWidth 8 (BitVec.setWidth 16 (BitVec.setWidth 32 w)) = BitVec.setWidth 8 (BitVec.setWidth 32 w) := by
    bv_decide
  rw [e1, e2]
  congr 1

/-- the second byte of a word at aa:16 -/
theorem abs16_1_toNat (a : BitVec 16) (hm : Spec.regionOf ((getAddrAbs16 a) + 1).toNat ≠ .none) :
    ((getAddrAbs16 a) + 1).toNat = ((a.signExtend 24).toNat + 1) % 2 ^ 24 := by
  have hlt := regionOf_lt _ hm
  have e : getAddrAbs16 a = (a.signExtend 24).setWidth 32 := by
    unfold getAddrAbs16
    split <;> rename_i hc <;> simp only [beq_iff_eq] at hc <;> bv_decide
  rw [e] at hlt ⊢
  have hy := (a.signExtend 24).isLt
  have h1 : (1 : BitVec 32).toNat = 1 := by decide
  simp only [BitVec.toNat_add, BitVec.toNat_setWidth, BitVec.toNat_ofNat, h1] at hlt ⊢
  omega

/-- MOV.W @aa:16,Rd -/
theorem MOV_W_LD_AA16 (op a : BitVec 16) (st s1 st' : Cpu) (c : BitVec 8) (i : Spec.Instr)
    (hp : Spec.Form.pat .MOV_W_LD_AA16 op a 0 0 0 = true)
    (hi : Spec.instrOf .MOV_W_LD_AA16 op a 0 0 0 = some i) (hf : fetch st = .ok a s1)
    (h : movAbs16 .W op st = .ok c st') :
    st' = { s1 with regs := (specRegCcr i s1).1, ccr := (specRegCcr i s1).2 } := by
  rw [Spec.instrOf_MOV_W_LD_AA16] at hi; simp only [Option.some.injEq] at hi; subst hi
  rw [Spec.pat_MOV_W_LD_AA16] at hp; simp only [Bool.and_eq_true, beq_iff_eq] at hp
  have htag : (op &&& 0xfff0 == 0x6b00) = true := by bv_decide
  have hsz : (Sz.W == Sz.B) = false := by decide
  simp only [movAbs16, bind_ok, hf, hsz, Bool.false_eq_true, if_false, htag, if_true, readMem, readAbs24W, pure_ok] at h
  split at h
  case h_2 => simp at h
  case h_3 => simp at h
  rename_i v s2 hb
  split at hb
  case h_2 => simp at hb
  case h_3 => simp at hb
  rename_i w16 sw hw
  split at hw
  case h_2 => simp at hw
  case h_3 => simp at hw
  rename_i vhi sh hhi
  obtain ⟨eh1, eh2, _⟩ := busRead_peek _ _ _ _ hhi
  subst eh1
  split at hw
  case h_2 => simp at hw
  case h_3 => simp at hw
  rename_i vlo sl hlo
  obtain ⟨el1, el2, hml⟩ := busRead_peek _ _ _ _ hlo
  subst el1
  simp only [Res.ok.injEq] at hw
  obtain ⟨hw1, hw2⟩ := hw
  subst hw1; subst hw2
  simp only [Res.ok.injEq] at hb
  obtain ⟨hb1, hb2⟩ := hb
  subst hb1; subst hb2
  simp only [writeRn, movPccSz, movPcc, writeRnW_nib, bind_ok, pure_ok, changeCcr_ok, writeCcr_zero, iBase, Sz.dataKind,
    Sz.dataCount] at h
  movcost_subst
  simp only [specRegCcr, Spec.exec, Spec.getReg, Spec.setReg, Spec.movFlags, Spec.eaOf, Spec.eaRegs, getR16_eq, setR16_eq,
    getER_eq, loadBE_two, Spec.Sz.bytes, x16]
  rw [abs16_toNat] at eh2
  rw [abs16_1_toNat _ hml] at el2
  rw [← eh2, ← el2]
  generalize sl.regs = r; generalize sl.ccr = cc
  congr 1
  all_goals (
    simp only [nib, rdW, wrW, getEr, setEr, shOf, Spec.nzClearV, Spec.setFlag, changeCcrV, Spec.z4, Spec.zx16, Spec.lo3]
    bv_decide)

/-- MOV.W Rs,@aa:16 -/
theorem MOV_W_ST_AA16 (op a : BitVec 16) (st s1 st' : Cpu) (c : BitVec 8) (i : Spec.Instr)
    (hp : Spec.Form.pat .MOV_W_ST_AA16 op a 0 0 0 = true)
    (hi : Spec.instrOf .MOV_W_ST_AA16 op a 0 0 0 = some i) (hf : fetch st = .ok a s1)
    (h : movAbs16 .W op st = .ok c st')
    (hsfr0 : Spec.isSfr (getAddrAbs16 a).toNat = false)
    (hsfr1 : Spec.isSfr ((getAddrAbs16 a) + 1).toNat = false) :
    st' = { s1 with regs := (specRegCcrBus i s1).1, ccr := (specRegCcrBus i s1).2.1, bus := (specRegCcrBus i s1).2.2 } := by
  rw [Spec.instrOf_MOV_W_ST_AA16] at hi; simp only [Option.some.injEq] at hi; subst hi
  rw [Spec.pat_MOV_W_ST_AA16] at hp; simp only [Bool.and_eq_true, beq_iff_eq] at hp
  have htag : (op &&& 0xfff0 == 0x6b00) = false := by bv_decide
  have hsz : (Sz.W == Sz.B) = false := by decide
  simp only [movAbs16, bind_ok, hf, hsz, htag, Bool.false_eq_true, if_false, writeMem, writeAbs24W, readRn, pure_ok,
    readRnW_nib] at h
  split at h
  case h_2 => simp at h
  case h_3 => simp at h
  rename_i u s2 hw
  split at hw
  case h_2 => simp at hw
  case h_3 => simp at hw
  rename_i u0 s0 hw0
  have e0 := busWrite_poke _ _ _ _ hw0 hsfr0
  subst e0
  have hm1 := busWrite_mapped _ _ _ _ hw
  have e1 := busWrite_poke _ _ _ _ hw hsfr1
  subst e1
  simp only [movPccSz, movPcc, bind_ok, pure_ok, changeCcr_ok, writeCcr_zero, iBase, Sz.dataKind, Sz.dataCount] at h
  movcost_subst
  simp only [specRegCcrBus, Spec.exec, Spec.getReg, Spec.setReg, Spec.movFlags, Spec.eaOf, Spec.eaRegs, getR16_eq, setR16_eq,
    getER_eq, storeBE_two, Spec.Sz.bytes, x16]
  rw [← abs16_toNat, ← abs16_1_toNat _ hm1]
  generalize hA : (getAddrAbs16 a).toNat = A
  generalize hB : ((getAddrAbs16 a) + 1).toNat = B
  generalize s1.regs = r; generalize s1.ccr = cc; generalize s1.bus = bus
  have hd : nib op 4 = ((op.extractLsb' 0 4).setWidth 4).setWidth 8 := by simp only [nib]; bv_decide
  rw [hd]
  generalize rdW r _ = w
  have e1 : BitVec.setWidth 8 (BitVec.setWidth 16 (BitVec.setWidth 32 w) >>> 8) = BitVec.setWidth 8 (BitVec.setWidth 32 w >>> 8) := by
    bv_decide
  have e2 : BitVec.setWidth 8 (BitVec.setWidth 16 (BitVec.setWidth 32 w)) = BitVec.setWidth 8 (BitVec.setWidth 32 w) := by
    bv_decide
  rw [e1, e2]
  congr 1

/-! ### aa:24 -/

theorem abs24_1_toNat (hi lo : BitVec 16) (h0 : hi &&& 0xff00#16 = 0x0000#16)
    (hm : Spec.regionOf (((hi.setWidth 32 <<< 16) ||| lo.setWidth 32) + 1).toNat ≠ .none) :
    (((hi.setWidth 32 <<< 16) ||| lo.setWidth 32) + 1).toNat =
      (((BitVec.setWidth 24 (BitVec.extractLsb' 0 8 hi) <<< 16) ||| BitVec.setWidth 24 (BitVec.extractLsb' 0 16 lo)).toNat + 1) % 2 ^ 24 := by
  have hlt := regionOf_lt _ hm
  have e : (hi.setWidth 32 <<< 16) ||| lo.setWidth 32 =
      ((BitVec.setWidth 24 (BitVec.extractLsb' 0 8 hi) <<< 16) ||| BitVec.setWidth 24 (BitVec.extractLsb' 0 16 lo)).setWidth 32 := by
    bv_decide
  rw [e] at hlt ⊢
  have hy := ((BitVec.setWidth 24 (BitVec.extractLsb' 0 8 hi) <<< 16) ||| BitVec.setWidth 24 (BitVec.extractLsb' 0 16 lo)).isLt
  have h1 : (1 : BitVec 32).toNat = 1 := by decide
  simp only [BitVec.toNat_add, BitVec.toNat_setWidth, BitVec.toNat_ofNat, h1] at hlt ⊢
  omega

/-- MOV.W @aa:24,Rd -/
theorem MOV_W_LD_AA24 (op hi lo : BitVec 16) (st s1 s2 st' : Cpu) (c : BitVec 8) (i : Spec.Instr)
    (hp : Spec.Form.pat .MOV_W_LD_AA24 op hi lo 0 0 = true)
    (hi' : Spec.instrOf .MOV_W_LD_AA24 op hi lo 0 0 = some i) (hf : fetch st = .ok hi s1) (hf2 : fetch s1 = .ok lo s2)
    (h : movAbs24 .W op st = .ok c st') :
    st' = { s2 with regs := (specRegCcr i s2).1, ccr := (specRegCcr i s2).2 } := by
  rw [Spec.instrOf_MOV_W_LD_AA24] at hi'; simp only [Option.some.injEq] at hi'; subst hi'
  rw [Spec.pat_MOV_W_LD_AA24] at hp; simp only [Bool.and_eq_true, beq_iff_eq] at hp
  have htag : (op &&& 0xfff0 == 0x6b20) = true := by bv_decide
  have hsz : (Sz.W == Sz.B) = false := by decide
  simp only [movAbs24, bind_ok, C08D.fetch32_ok _ _ _ _ _ hf hf2, hsz, Bool.false_eq_true, if_false, htag, if_true, readMem,
    readAbs24W, pure_ok] at h
  split at h
  case h_2 => simp at h
  case h_3 => simp at h
  rename_i v s3 hb
  split at hb
  case h_2 => simp at hb
  case h_3 => simp at hb
  rename_i w16 sw hw
  split at hw
  case h_2 => simp at hw
  case h_3 => simp at hw
  rename_i vhi sh hhi
  obtain ⟨eh1, eh2, _⟩ := busRead_peek _ _ _ _ hhi
  subst eh1
  split at hw
  case h_2 => simp at hw
  case h_3 => simp at hw
  rename_i vlo sl hlo
  obtain ⟨el1, el2, hml⟩ := busRead_peek _ _ _ _ hlo
  subst el1
  simp only [Res.ok.injEq] at hw
  obtain ⟨hw1, hw2⟩ := hw
  subst hw1; subst hw2
  simp only [Res.ok.injEq] at hb
  obtain ⟨hb1, hb2⟩ := hb
  subst hb1; subst hb2
  simp only [writeRn, movPccSz, movPcc, writeRnW_nib, bind_ok, pure_ok, changeCcr_ok, writeCcr_zero, iBase, Sz.dataKind,
    Sz.dataCount] at h
  movcost_subst
  simp only [specRegCcr, Spec.exec, Spec.getReg, Spec.setReg, Spec.movFlags, Spec.eaOf, Spec.eaRegs, getR16_eq, setR16_eq,
    getER_eq, loadBE_two, Spec.Sz.bytes]
  rw [abs24_toNat hi lo hp.1.1.1.2] at eh2
  rw [abs24_1_toNat hi lo hp.1.1.1.2 hml] at el2
  rw [← eh2, ← el2]
  generalize sl.regs = r; generalize sl.ccr = cc
  congr 1
  all_goals (
    simp only [nib, rdW, wrW, getEr, setEr, shOf, Spec.nzClearV, Spec.setFlag, changeCcrV, Spec.z4, Spec.zx16, Spec.lo3]
    bv_decide)

/-- MOV.W Rs,@aa:24 -/
theorem MOV_W_ST_AA24 (op hi lo : BitVec 16) (st s1 s2 st' : Cpu) (c : BitVec 8) (i : Spec.Instr)
    (hp : Spec.Form.pat .MOV_W_ST_AA24 op hi lo 0 0 = true)
    (hi' : Spec.instrOf .MOV_W_ST_AA24 op hi lo 0 0 = some i) (hf : fetch st = .ok hi s1) (hf2 : fetch s1 = .ok lo s2)
    (h : movAbs24 .W op st = .ok c st')
    (hsfr0 : Spec.isSfr ((hi.setWidth 32 <<< 16) ||| lo.setWidth 32).toNat = false)
    (hsfr1 : Spec.isSfr (((hi.setWidth 32 <<< 16) ||| lo.setWidth 32) + 1).toNat = false) :
    st' = { s2 with regs := (specRegCcrBus i s2).1, ccr := (specRegCcrBus i s2).2.1, bus := (specRegCcrBus i s2).2.2 } := by
  rw [Spec.instrOf_MOV_W_ST_AA24] at hi'; simp only [Option.some.injEq] at hi'; subst hi'
  rw [Spec.pat_MOV_W_ST_AA24] at hp; simp only [Bool.and_eq_true, beq_iff_eq] at hp
  have htag : (op &&& 0xfff0 == 0x6b20) = false := by bv_decide
  have hsz : (Sz.W == Sz.B) = false := by decide
  simp only [movAbs24, bind_ok, C08D.fetch32_ok _ _ _ _ _ hf hf2, hsz, htag, Bool.false_eq_true, if_false, writeMem, writeAbs24W,
    readRn, pure_ok, readRnW_nib] at h
  split at h
  case h_2 => simp at h
  case h_3 => simp at h
  rename_i u s3 hw
  split at hw
  case h_2 => simp at hw
  case h_3 => simp at hw
  rename_i u0 s0 hw0
  have e0 := busWrite_poke _ _ _ _ hw0 hsfr0
  subst e0
  have hm1 := busWrite_mapped _ _ _ _ hw
  have e1 := busWrite_poke _ _ _ _ hw hsfr1
  subst e1
  simp only [movPccSz, movPcc, bind_ok, pure_ok, changeCcr_ok, writeCcr_zero, iBase, Sz.dataKind, Sz.dataCount] at h
  movcost_subst
  simp only [specRegCcrBus, Spec.exec, Spec.getReg, Spec.setReg, Spec.movFlags, Spec.eaOf, Spec.eaRegs, getR16_eq, setR16_eq,
    getER_eq, storeBE_two, Spec.Sz.bytes]
  rw [← abs24_toNat hi lo hp.1.1.1.2, ← abs24_1_toNat hi lo hp.1.1.1.2 hm1]
  generalize hA : ((hi.setWidth 32 <<< 16) ||| lo.setWidth 32).toNat = A
  generalize hB : (((hi.setWidth 32 <<< 16) ||| lo.setWidth 32) + 1).toNat = B
  generalize s2.regs = r; generalize s2.ccr = cc; generalize s2.bus = bus
  have hd : nib op 4 = ((op.extractLsb' 0 4).setWidth 4).setWidth 8 := by simp only [nib]; bv_decide
  rw [hd]
  generalize rdW r _ = w
  have e1 : BitVec.setWidth 8 (BitVec.setWidth 16 (BitVec.setWidth 32 w) >>> 8) = BitVec.setWidth 8 (BitVec.setWidth 32 w >>> 8) := by
    bv_decide
  have e2 : BitVec.setWidth 8 (BitVec.setWidth 16 (BitVec.setWidth 32 w)) = BitVec.setWidth 8 (BitVec.setWidth 32 w) := by
    bv_decide
  rw [e1, e2]
  congr 1

end H8.Props.C08W
