/-
  C08 at handler level — displacement and absolute addressing: MOV.B through `@(d:16,ERn)`, `@aa:16` and `@aa:24`, load and
  store.  The handlers fetch the displacement / address words themselves: the theorems are relative to the state after
  those fetches.  The byte moved is the byte at the effective address the manual defines — ERn + sign-extended d:16
  modulo 2^24 (the upper byte of ERn takes no part), aa:16 sign-extended to 24 bits, aa:24 — as the Spec's memory view sees
  it; N, Z from the value, V cleared; a store changes exactly that byte (not a special-function register).
-/
import H8.Props.C01N
set_option linter.unusedSimpArgs false
namespace H8.Props.C08D
open H8 H8.Lemmas H8.Props H8.Props.C01M H8.Props.C01N

set_option hygiene false in
local macro "movcost_subst" : tactic => `(tactic|
  (split at h
   case h_2 => simp at h
   case h_3 => simp at h
   rename_i c1 sa h1; have := costI_state h1; subst this
   split at h
   case h_2 => simp at h
   case h_3 => simp at h
   rename_i c2 sb2 h2; have := calcStateWithAddr_state h2; subst this
   injection h with _ h; subst h))

/-- ERn + sign-extended d:16, modulo 2^24: the model's masked 32-bit sum names the Spec's 24-bit address -/
theorem disp16_toNat (x : BitVec 32) (d : BitVec 16) :
    ((x + d.signExtend 32) &&& ADDRESS_MASK).toNat = ((x.setWidth 24 + d.signExtend 24).toNat + 0) % 2 ^ 24 := by
  have e : (x + d.signExtend 32) &&& ADDRESS_MASK = (x.setWidth 24 + d.signExtend 24).setWidth 32 := by
    unfold ADDRESS_MASK; bv_decide
  rw [e]
  have hlt := (x.setWidth 24 + d.signExtend 24).isLt
  simp only [BitVec.toNat_setWidth, Nat.add_zero]
  omega

theorem x16 (imm : BitVec 16) : (BitVec.setWidth 16 (BitVec.extractLsb' 0 16 imm)) = imm := by bv_decide

/-- MOV.B @(d:16,ERs),Rd -/
theorem MOV_B_LD_D16 (op d : BitVec 16) (st s1 st' : Cpu) (c : BitVec 8) (i : Spec.Instr)
    (hp : Spec.Form.pat .MOV_B_LD_D16 op d 0 0 0 = true)
    (hi : Spec.instrOf .MOV_B_LD_D16 op d 0 0 0 = some i) (hf : fetch st = .ok d s1)
    (h : movDisp16 .B op st = .ok c st') :
    st' = { s1 with regs := (specRegCcr i s1).1, ccr := (specRegCcr i s1).2 } := by
  rw [Spec.instrOf_MOV_B_LD_D16] at hi; simp only [Option.some.injEq] at hi; subst hi
  rw [Spec.pat_MOV_B_LD_D16] at hp; simp only [Bool.and_eq_true, beq_iff_eq] at hp
  have hdir : (op &&& 0x0080 == 0) = true := by bv_decide
  have h3 : (nib op 3).ule 7#8 = true := by (simp only [nib]; bv_decide)
  simp only [movDisp16, bind_ok, hf, hdir, if_true, getAddrDisp16, readMem, pure_ok, readRnL_ok _ _ h3] at h
  split at h
  case h_2 => simp at h
  case h_3 => simp at h
  rename_i v s2 hb
  split at hb
  case h_2 => simp at hb
  case h_3 => simp at hb
  rename_i vb sb hbb
  simp only [Res.ok.injEq] at hb
  obtain ⟨hv, hs2⟩ := hb
  subst hv; subst hs2
  obtain ⟨e1, e2, _⟩ := busRead_peek _ _ _ _ hbb
  subst e1
  simp only [writeRn, movPccSz, movPcc, writeRnB_nib, bind_ok, pure_ok, changeCcr_ok, writeCcr_zero, iBase, Sz.dataKind,
    Sz.dataCount] at h
  movcost_subst
  simp only [specRegCcr, Spec.exec, Spec.getReg, Spec.setReg, Spec.movFlags, Spec.eaOf, Spec.eaRegs, getR8_eq, setR8_eq,
    getER_eq, loadBE_one, Spec.Sz.bytes, x16]
  have hidx : (BitVec.setWidth 8 (BitVec.setWidth 3 (BitVec.extractLsb' 4 3 op))) = nib op 3 := by
    simp only [nib]; bv_decide
  rw [hidx]
  rw [disp16_toNat] at e2
  rw [← e2]
  generalize sb.regs = r; generalize sb.ccr = cc
  congr 1
  all_goals (
    simp only [nib, rdB, wrB, getEr, setEr, shOf, Spec.nzClearV, Spec.setFlag, changeCcrV, Spec.z4, Spec.zx8, Spec.lo3]
    bv_decide)

/-- MOV.B Rs,@(d:16,ERd) -/
theorem MOV_B_ST_D16 (op d : BitVec 16) (st s1 st' : Cpu) (c : BitVec 8) (i : Spec.Instr)
    (hp : Spec.Form.pat .MOV_B_ST_D16 op d 0 0 0 = true)
    (hi : Spec.instrOf .MOV_B_ST_D16 op d 0 0 0 = some i) (hf : fetch st = .ok d s1)
    (h : movDisp16 .B op st = .ok c st')
    (hsfr : Spec.isSfr ((getEr s1.regs (nib op 3 &&& 7) + d.signExtend 32) &&& ADDRESS_MASK).toNat = false) :
    st' = { s1 with regs := (specRegCcrBus i s1).1, ccr := (specRegCcrBus i s1).2.1, bus := (specRegCcrBus i s1).2.2 } := by
  rw [Spec.instrOf_MOV_B_ST_D16] at hi; simp only [Option.some.injEq] at hi; subst hi
  rw [Spec.pat_MOV_B_ST_D16] at hp; simp only [Bool.and_eq_true, beq_iff_eq] at hp
  have hdir : (op &&& 0x0080 == 0) = false := by bv_decide
  have h3 : (nib op 3 &&& 7).ule 7#8 = true := by (simp only [nib]; bv_decide)
  simp only [movDisp16, bind_ok, hf, hdir, Bool.false_eq_true, if_false, getAddrDisp16, writeMem, readRn, pure_ok,
    readRnL_ok _ _ h3, readRnB_nib] at h
  split at h
  case h_2 => simp at h
  case h_3 => simp at h
  rename_i u s2 hw
  have e1 := busWrite_poke _ _ _ _ hw hsfr
  subst e1
  simp only [movPccSz, movPcc, bind_ok, pure_ok, changeCcr_ok, writeCcr_zero, iBase, Sz.dataKind, Sz.dataCount] at h
  movcost_subst
  simp only [specRegCcrBus, Spec.exec, Spec.getReg, Spec.setReg, Spec.movFlags, Spec.eaOf, Spec.eaRegs, getR8_eq, setR8_eq,
    getER_eq, storeBE_one, Spec.Sz.bytes, x16]
  have hidx : (BitVec.setWidth 8 (BitVec.setWidth 3 (BitVec.extractLsb' 4 3 op))) = nib op 3 &&& 7 := by
    simp only [nib]; bv_decide
  rw [hidx, ← disp16_toNat]
  generalize hA : ((getEr s1.regs (nib op 3 &&& 7) + d.signExtend 32) &&& ADDRESS_MASK).toNat = A
  generalize s1.regs = r; generalize s1.ccr = cc; generalize s1.bus = bus
  congr 1
  all_goals (
    try (congr 1)
    all_goals (
      simp only [nib, rdB, wrB, getEr, setEr, shOf, Spec.nzClearV, Spec.setFlag, changeCcrV, Spec.z4, Spec.zx8, Spec.lo3]
      bv_decide))

/-! ### absolute addresses -/

/-- aa:16 sign-extended: H'0000–H'7FFF name the bottom, H'8000–H'FFFF the top 32 KiB of the 24-bit space -/
theorem abs16_toNat (a : BitVec 16) : (getAddrAbs16 a).toNat = ((a.signExtend 24).toNat + 0) % 2 ^ 24 := by
  have e : getAddrAbs16 a = (a.signExtend 24).setWidth 32 := by
    unfold getAddrAbs16
    split <;> rename_i hc <;> simp only [beq_iff_eq] at hc <;> bv_decide
  rw [e]
  have hlt := (a.signExtend 24).isLt
  simp only [BitVec.toNat_setWidth, Nat.add_zero]
  omega

/-- MOV.B @aa:16,Rd -/
theorem MOV_B_LD_AA16 (op a : BitVec 16) (st s1 st' : Cpu) (c : BitVec 8) (i : Spec.Instr)
    (hp : Spec.Form.pat .MOV_B_LD_AA16 op a 0 0 0 = true)
    (hi : Spec.instrOf .MOV_B_LD_AA16 op a 0 0 0 = some i) (hf : fetch st = .ok a s1)
    (h : movAbs16 .B op st = .ok c st') :
    st' = { s1 with regs := (specRegCcr i s1).1, ccr := (specRegCcr i s1).2 } := by
  rw [Spec.instrOf_MOV_B_LD_AA16] at hi; simp only [Option.some.injEq] at hi; subst hi
  rw [Spec.pat_MOV_B_LD_AA16] at hp; simp only [Bool.and_eq_true, beq_iff_eq] at hp
  have htag : (op &&& 0xfff0 == 0x6a00) = true := by bv_decide
  simp only [movAbs16, bind_ok, hf, beq_self_eq_true, if_true, htag, readMem, pure_ok] at h
  split at h
  case h_2 => simp at h
  case h_3 => simp at h
  rename_i v s2 hb
  split at hb
  case h_2 => simp at hb
  case h_3 => simp at hb
  rename_i vb sb hbb
  simp only [Res.ok.injEq] at hb
  obtain ⟨hv, hs2⟩ := hb
  subst hv; subst hs2
  obtain ⟨e1, e2, _⟩ := busRead_peek _ _ _ _ hbb
  subst e1
  simp only [writeRn, movPccSz, movPcc, writeRnB_nib, bind_ok, pure_ok, changeCcr_ok, writeCcr_zero, iBase, Sz.dataKind,
    Sz.dataCount] at h
  movcost_subst
  simp only [specRegCcr, Spec.exec, Spec.getReg, Spec.setReg, Spec.movFlags, Spec.eaOf, Spec.eaRegs, getR8_eq, setR8_eq,
    getER_eq, loadBE_one, Spec.Sz.bytes, x16]
  rw [abs16_toNat] at e2
  rw [← e2]
  generalize sb.regs = r; generalize sb.ccr = cc
  congr 1
  all_goals (
    simp only [nib, rdB, wrB, getEr, setEr, shOf, Spec.nzClearV, Spec.setFlag, changeCcrV, Spec.z4, Spec.zx8, Spec.lo3]
    bv_decide)

/-- MOV.B Rs,@aa:16 -/
theorem MOV_B_ST_AA16 (op a : BitVec 16) (st s1 st' : Cpu) (c : BitVec 8) (i : Spec.Instr)
    (hp : Spec.Form.pat .MOV_B_ST_AA16 op a 0 0 0 = true)
    (hi : Spec.instrOf .MOV_B_ST_AA16 op a 0 0 0 = some i) (hf : fetch st = .ok a s1)
    (h : movAbs16 .B op st = .ok c st')
    (hsfr : Spec.isSfr (getAddrAbs16 a).toNat = false) :
    st' = { s1 with regs := (specRegCcrBus i s1).1, ccr := (specRegCcrBus i s1).2.1, bus := (specRegCcrBus i s1).2.2 } := by
  rw [Spec.instrOf_MOV_B_ST_AA16] at hi; simp only [Option.some.injEq] at hi; subst hi
  rw [Spec.pat_MOV_B_ST_AA16] at hp; simp only [Bool.and_eq_true, beq_iff_eq] at hp
  have htag : (op &&& 0xfff0 == 0x6a00) = false := by bv_decide
  simp only [movAbs16, bind_ok, hf, beq_self_eq_true, if_true, htag, Bool.false_eq_true, if_false, writeMem, readRn, pure_ok,
    readRnB_nib] at h
  split at h
  case h_2 => simp at h
  case h_3 => simp at h
  rename_i u s2 hw
  have e1 := busWrite_poke _ _ _ _ hw hsfr
  subst e1
  simp only [movPccSz, movPcc, bind_ok, pure_ok, changeCcr_ok, writeCcr_zero, iBase, Sz.dataKind, Sz.dataCount] at h
  movcost_subst
  simp only [specRegCcrBus, Spec.exec, Spec.getReg, Spec.setReg, Spec.movFlags, Spec.eaOf, Spec.eaRegs, getR8_eq, setR8_eq,
    getER_eq, storeBE_one, Spec.Sz.bytes, x16]
  rw [← abs16_toNat]
  generalize hA : (getAddrAbs16 a).toNat = A
  generalize s1.regs = r; generalize s1.ccr = cc; generalize s1.bus = bus
  congr 1
  all_goals (
    try (congr 1)
    all_goals (
      simp only [nib, rdB, wrB, getEr, setEr, shOf, Spec.nzClearV, Spec.setFlag, changeCcrV, Spec.z4, Spec.zx8, Spec.lo3]
      bv_decide))

theorem fetch32_ok (st s1 s2 : Cpu) (hi lo : BitVec 16) (hf : fetch st = .ok hi s1) (hf2 : fetch s1 = .ok lo s2) :
    fetch32 st = .ok ((hi.setWidth 32 <<< 16) ||| lo.setWidth 32) s2 := by
  simp only [fetch32, bind_ok, pure_ok, hf, hf2]

/-- aa:24 in two words (the upper byte of the first is zero in the encoding) -/
theorem abs24_toNat (hi lo : BitVec 16) (h0 : hi &&& 0xff00#16 = 0x0000#16) :
    ((hi.setWidth 32 <<< 16) ||| lo.setWidth 32).toNat =
      (((BitVec.setWidth 24 (BitVec.extractLsb' 0 8 hi) <<< 16) ||| BitVec.setWidth 24 (BitVec.extractLsb' 0 16 lo)).toNat + 0) % 2 ^ 24 := by
  have e : (hi.setWidth 32 <<< 16) ||| lo.setWidth 32 =
      ((BitVec.setWidth 24 (BitVec.extractLsb' 0 8 hi) <<< 16) ||| BitVec.setWidth 24 (BitVec.extractLsb' 0 16 lo)).setWidth 32 := by
    bv_decide
  rw [e]
  have hlt := ((BitVec.setWidth 24 (BitVec.extractLsb' 0 8 hi) <<< 16) ||| BitVec.setWidth 24 (BitVec.extractLsb' 0 16 lo)).isLt
  simp only [BitVec.toNat_setWidth, Nat.add_zero]
  omega

/-- MOV.B @aa:24,Rd -/
theorem MOV_B_LD_AA24 (op hi lo : BitVec 16) (st s1 s2 st' : Cpu) (c : BitVec 8) (i : Spec.Instr)
    (hp : Spec.Form.pat .MOV_B_LD_AA24 op hi lo 0 0 = true)
    (hi' : Spec.instrOf .MOV_B_LD_AA24 op hi lo 0 0 = some i) (hf : fetch st = .ok hi s1) (hf2 : fetch s1 = .ok lo s2)
    (h : movAbs24 .B op st = .ok c st') :
    st' = { s2 with regs := (specRegCcr i s2).1, ccr := (specRegCcr i s2).2 } := by
  rw [Spec.instrOf_MOV_B_LD_AA24] at hi'; simp only [Option.some.injEq] at hi'; subst hi'
  rw [Spec.pat_MOV_B_LD_AA24] at hp; simp only [Bool.and_eq_true, beq_iff_eq] at hp
  have htag : (op &&& 0xfff0 == 0x6a20) = true := by bv_decide
  simp only [movAbs24, bind_ok, fetch32_ok _ _ _ _ _ hf hf2, beq_self_eq_true, if_true, htag, readMem, pure_ok] at h
  split at h
  case h_2 => simp at h
  case h_3 => simp at h
  rename_i v s3 hb
  split at hb
  case h_2 => simp at hb
  case h_3 => simp at hb
  rename_i vb sb hbb
  simp only [Res.ok.injEq] at hb
  obtain ⟨hv, hs3⟩ := hb
  subst hv; subst hs3
  obtain ⟨e1, e2, _⟩ := busRead_peek _ _ _ _ hbb
  subst e1
  simp only [writeRn, movPccSz, movPcc, writeRnB_nib, bind_ok, pure_ok, changeCcr_ok, writeCcr_zero, iBase, Sz.dataKind,
    Sz.dataCount] at h
  movcost_subst
  simp only [specRegCcr, Spec.exec, Spec.getReg, Spec.setReg, Spec.movFlags, Spec.eaOf, Spec.eaRegs, getR8_eq, setR8_eq,
    getER_eq, loadBE_one, Spec.Sz.bytes]
  rw [abs24_toNat hi lo hp.1.1.1.2] at e2
  rw [← e2]
  generalize sb.regs = r; generalize sb.ccr = cc
  congr 1
  all_goals (
    simp only [nib, rdB, wrB, getEr, setEr, shOf, Spec.nzClearV, Spec.setFlag, changeCcrV, Spec.z4, Spec.zx8, Spec.lo3]
    bv_decide)

/-- MOV.B Rs,@aa:24 -/
theorem MOV_B_ST_AA24 (op hi lo : BitVec 16) (st s1 s2 st' : Cpu) (c : BitVec 8) (i : Spec.Instr)
    (hp : Spec.Form.pat .MOV_B_ST_AA24 op hi lo 0 0 = true)
    (hi' : Spec.instrOf .MOV_B_ST_AA24 op hi lo 0 0 = some i) (hf : fetch st = .ok hi s1) (hf2 : fetch s1 = .ok lo s2)
    (h : movAbs24 .B op st = .ok c st')
    (hsfr : Spec.isSfr ((hi.setWidth 32 <<< 16) ||| lo.setWidth 32).toNat = false) :
    st' = { s2 with regs := (specRegCcrBus i s2).1, ccr := (specRegCcrBus i s2).2.1, bus := (specRegCcrBus i s2).2.2 } := by
  rw [Spec.instrOf_MOV_B_ST_AA24] at hi'; simp only [Option.some.injEq] at hi'; subst hi'
  rw [Spec.pat_MOV_B_ST_AA24] at hp; simp only [Bool.and_eq_true, beq_iff_eq] at hp
  have htag : (op &&& 0xfff0 == 0x6a20) = false := by bv_decide
  simp only [movAbs24, bind_ok, fetch32_ok _ _ _ _ _ hf hf2, beq_self_eq_true, if_true, htag, Bool.false_eq_true, if_false,
    writeMem, readRn, pure_ok, readRnB_nib] at h
  split at h
  case h_2 => simp at h
  case h_3 => simp at h
  rename_i u s3 hw
  have e1 := busWrite_poke _ _ _ _ hw hsfr
  subst e1
  simp only [movPccSz, movPcc, bind_ok, pure_ok, changeCcr_ok, writeCcr_zero, iBase, Sz.dataKind, Sz.dataCount] at h
  movcost_subst
  simp only [specRegCcrBus, Spec.exec, Spec.getReg, Spec.setReg, Spec.movFlags, Spec.eaOf, Spec.eaRegs, getR8_eq, setR8_eq,
    getER_eq, storeBE_one, Spec.Sz.bytes]
  rw [← abs24_toNat hi lo hp.1.1.1.2]
  generalize hA : ((hi.setWidth 32 <<< 16) ||| lo.setWidth 32).toNat = A
  generalize s2.regs = r; generalize s2.ccr = cc; generalize s2.bus = bus
  congr 1
  all_goals (
    try (congr 1)
    all_goals (
      simp only [nib, rdB, wrB, getEr, setEr, shOf, Spec.nzClearV, Spec.setFlag, changeCcrV, Spec.z4, Spec.zx8, Spec.lo3]
      bv_decide))

-- non-vacuity: H'FFC000 (on-chip RAM) through aa:16 = H'C000 is not a special-function register
example : Spec.isSfr (getAddrAbs16 0xC000).toNat = false := by decide

end H8.Props.C08D
