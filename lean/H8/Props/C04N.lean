/-
  C04, memory operands, bit number in a register — BSET / BCLR / BNOT / BTST `Rn,@ERd` and `Rn,@aa:8` at handler level:
  the bit number is the low three bits of the byte register Rn (any of the 16; its other bits are ignored), the operand
  the Spec's `peek` at the effective address; the writing forms `poke` exactly that byte with exactly that bit changed,
  BTST changes exactly Z.  For every encoding (both words), register file, CCR and memory content.
-/
import H8.Props.C04M
set_option linter.unusedSimpArgs false
namespace H8.Props.C04N
open H8 H8.Lemmas H8.Props H8.Props.C01M H8.Props.C04M

set_option hygiene false in
local macro "bitcost_subst" : tactic => `(tactic|
  (split at h
   case h_2 => simp at h
   case h_3 => simp at h
   rename_i c1 sa h1; have := costI_state h1; subst this
   split at h
   case h_2 => simp at h
   case h_3 => simp at h
   rename_i c2 sb2 h2; have := calcStateWithAddr_state h2; subst this
   injection h with _ h; subst h))

-- writing forms, bit number in Rn.  Context: hp, hi, h, hsfr.  `addr` = @ERd or @aa:8 decided by the simp set.
set_option hygiene false in
local macro "bitw_rn" il:ident pl:ident : tactic => `(tactic|
  (rw [$il:ident] at hi; simp only [Option.some.injEq] at hi; subst hi
   rw [$pl:ident] at hp; simp only [Bool.and_eq_true, beq_iff_eq] at hp
   first
     | (have h3 : (nib op 3).ule 7#8 = true := by (simp only [nib]; bv_decide))
     | (have h3 : (7 : BitVec 8).ule 7#8 = true := by decide)
   first
     | (have htag : (op2 &&& 0xff0f == 0x7000) = false ∧ (op2 &&& 0xff0f == 0x6000) = true := by constructor <;> bv_decide)
     | (have htag : (op2 &&& 0xff0f == 0x7100) = false ∧ (op2 &&& 0xff0f == 0x6100) = true := by constructor <;> bv_decide)
     | (have htag : (op2 &&& 0xff0f == 0x7200) = false ∧ (op2 &&& 0xff0f == 0x6200) = true := by constructor <;> bv_decide)
   simp only [bmodErn, bmodAbs, getAddrErn, htag.1, htag.2, Bool.false_eq_true, if_false, if_true, bind_ok, pure_ok, get_ok,
     readRnL_ok _ _ h3, readRnB_nib] at h
   split at h
   case h_2 => simp at h
   case h_3 => simp at h
   rename_i vb sb hbb
   obtain ⟨e1, e2, _⟩ := busRead_peek _ _ _ _ hbb
   subst e1
   split at h
   case h_2 => simp at h
   case h_3 => simp at h
   rename_i u s1 hrw
   have ew := busWrite_poke _ _ _ _ hrw hsfr
   subst ew
   bitcost_subst
   simp only [specRegCcrBus, Spec.exec, Spec.BitOp.writes, if_true, getER_eq, getR8_eq]
   have hn : (BitVec.setWidth 8 (BitVec.setWidth 4 (BitVec.extractLsb' 4 4 op2))) = nib op2 3 := by
     simp only [nib]; bv_decide
   try (
     have hidx : (BitVec.setWidth 8 (BitVec.setWidth 3 (BitVec.extractLsb' 4 3 op))) = nib op 3 := by
       simp only [nib]; bv_decide
     rw [hidx])
   rw [hn]
   first
     | (have ha : (BitVec.setWidth 24 (getEr sb.regs (nib op 3))).toNat = (getEr sb.regs (nib op 3) &&& ADDRESS_MASK).toNat := by
          rw [addr_toNat]; have := (BitVec.setWidth 24 (getEr sb.regs (nib op 3))).isLt; omega
        rw [ha, e2])
     | (rw [abs8_addr, e2])
   generalize Spec.peek sb.bus _ = v
   generalize rdB sb.regs (nib op2 3) = bn
   congr 2
   simp only [Spec.bitK, BMod.ap]
   bv_decide))

theorem BSET_RN_IND (op op2 : BitVec 16) (st st' : Cpu) (c : BitVec 8) (i : Spec.Instr)
    (hp : Spec.Form.pat .BSET_RN_IND op op2 0 0 0 = true)
    (hi : Spec.instrOf .BSET_RN_IND op op2 0 0 0 = some i) (h : bmodErn .set 0x7000 0x6000 op op2 st = .ok c st')
    (hsfr : Spec.isSfr (getEr st.regs (nib op 3) &&& ADDRESS_MASK).toNat = false) :
    st' = { st with regs := (specRegCcrBus i st).1, ccr := (specRegCcrBus i st).2.1, bus := (specRegCcrBus i st).2.2 } := by
  bitw_rn Spec.instrOf_BSET_RN_IND Spec.pat_BSET_RN_IND

theorem BNOT_RN_IND (op op2 : BitVec 16) (st st' : Cpu) (c : BitVec 8) (i : Spec.Instr)
    (hp : Spec.Form.pat .BNOT_RN_IND op op2 0 0 0 = true)
    (hi : Spec.instrOf .BNOT_RN_IND op op2 0 0 0 = some i) (h : bmodErn .not_ 0x7100 0x6100 op op2 st = .ok c st')
    (hsfr : Spec.isSfr (getEr st.regs (nib op 3) &&& ADDRESS_MASK).toNat = false) :
    st' = { st with regs := (specRegCcrBus i st).1, ccr := (specRegCcrBus i st).2.1, bus := (specRegCcrBus i st).2.2 } := by
  bitw_rn Spec.instrOf_BNOT_RN_IND Spec.pat_BNOT_RN_IND

theorem BCLR_RN_IND (op op2 : BitVec 16) (st st' : Cpu) (c : BitVec 8) (i : Spec.Instr)
    (hp : Spec.Form.pat .BCLR_RN_IND op op2 0 0 0 = true)
    (hi : Spec.instrOf .BCLR_RN_IND op op2 0 0 0 = some i) (h : bmodErn .clr 0x7200 0x6200 op op2 st = .ok c st')
    (hsfr : Spec.isSfr (getEr st.regs (nib op 3) &&& ADDRESS_MASK).toNat = false) :
    st' = { st with regs := (specRegCcrBus i st).1, ccr := (specRegCcrBus i st).2.1, bus := (specRegCcrBus i st).2.2 } := by
  bitw_rn Spec.instrOf_BCLR_RN_IND Spec.pat_BCLR_RN_IND

theorem BSET_RN_AA8 (op op2 : BitVec 16) (st st' : Cpu) (c : BitVec 8) (i : Spec.Instr)
    (hp : Spec.Form.pat .BSET_RN_AA8 op op2 0 0 0 = true)
    (hi : Spec.instrOf .BSET_RN_AA8 op op2 0 0 0 = some i) (h : bmodAbs .set 0x7000 0x6000 op op2 st = .ok c st')
    (hsfr : Spec.isSfr (getAddrAbs8 (op.setWidth 8)).toNat = false) :
    st' = { st with regs := (specRegCcrBus i st).1, ccr := (specRegCcrBus i st).2.1, bus := (specRegCcrBus i st).2.2 } := by
  bitw_rn Spec.instrOf_BSET_RN_AA8 Spec.pat_BSET_RN_AA8

theorem BNOT_RN_AA8 (op op2 : BitVec 16) (st st' : Cpu) (c : BitVec 8) (i : Spec.Instr)
    (hp : Spec.Form.pat .BNOT_RN_AA8 op op2 0 0 0 = true)
    (hi : Spec.instrOf .BNOT_RN_AA8 op op2 0 0 0 = some i) (h : bmodAbs .not_ 0x7100 0x6100 op op2 st = .ok c st')
    (hsfr : Spec.isSfr (getAddrAbs8 (op.setWidth 8)).toNat = false) :
    st' = { st with regs := (specRegCcrBus i st).1, ccr := (specRegCcrBus i st).2.1, bus := (specRegCcrBus i st).2.2 } := by
  bitw_rn Spec.instrOf_BNOT_RN_AA8 Spec.pat_BNOT_RN_AA8

theorem BCLR_RN_AA8 (op op2 : BitVec 16) (st st' : Cpu) (c : BitVec 8) (i : Spec.Instr)
    (hp : Spec.Form.pat .BCLR_RN_AA8 op op2 0 0 0 = true)
    (hi : Spec.instrOf .BCLR_RN_AA8 op op2 0 0 0 = some i) (h : bmodAbs .clr 0x7200 0x6200 op op2 st = .ok c st')
    (hsfr : Spec.isSfr (getAddrAbs8 (op.setWidth 8)).toNat = false) :
    st' = { st with regs := (specRegCcrBus i st).1, ccr := (specRegCcrBus i st).2.1, bus := (specRegCcrBus i st).2.2 } := by
  bitw_rn Spec.instrOf_BCLR_RN_AA8 Spec.pat_BCLR_RN_AA8

-- BTST Rn,@ERd / @aa:8: Z := ¬bit
set_option hygiene false in
local macro "btst_rn" il:ident pl:ident : tactic => `(tactic|
  (rw [$il:ident] at hi; simp only [Option.some.injEq] at hi; subst hi
   rw [$pl:ident] at hp; simp only [Bool.and_eq_true, beq_iff_eq] at hp
   first
     | (have h3 : (nib op 3).ule 7#8 = true := by (simp only [nib]; bv_decide))
     | (have h3 : (7 : BitVec 8).ule 7#8 = true := by decide)
   simp only [btstErn, btstAbs, btstSet, getAddrErn, if_true, bind_ok, pure_ok, get_ok, readRnL_ok _ _ h3, readRnB_nib,
     changeCcr_ok] at h
   split at h
   case h_2 => simp at h
   case h_3 => simp at h
   rename_i vb sb hbb
   obtain ⟨e1, e2, _⟩ := busRead_peek _ _ _ _ hbb
   subst e1
   bitcost_subst
   simp only [specRegCcr, Spec.exec, Spec.BitOp.writes, Bool.false_eq_true, if_false, getER_eq, getR8_eq]
   have hn : (BitVec.setWidth 8 (BitVec.setWidth 4 (BitVec.extractLsb' 4 4 op2))) = nib op2 3 := by
     simp only [nib]; bv_decide
   try (
     have hidx : (BitVec.setWidth 8 (BitVec.setWidth 3 (BitVec.extractLsb' 4 3 op))) = nib op 3 := by
       simp only [nib]; bv_decide
     rw [hidx])
   rw [hn]
   first
     | (have ha : (BitVec.setWidth 24 (getEr sb.regs (nib op 3))).toNat = (getEr sb.regs (nib op 3) &&& ADDRESS_MASK).toNat := by
          rw [addr_toNat]; have := (BitVec.setWidth 24 (getEr sb.regs (nib op 3))).isLt; omega
        rw [ha, e2])
     | (rw [abs8_addr, e2])
   generalize Spec.peek sb.bus _ = v
   generalize rdB sb.regs (nib op2 3) = bn
   generalize sb.ccr = cc
   congr 1
   simp only [Spec.bitK, Spec.setFlag, changeCcrV]
   bv_decide))

theorem BTST_RN_IND (op op2 : BitVec 16) (st st' : Cpu) (c : BitVec 8) (i : Spec.Instr)
    (hp : Spec.Form.pat .BTST_RN_IND op op2 0 0 0 = true)
    (hi : Spec.instrOf .BTST_RN_IND op op2 0 0 0 = some i) (h : btstErn true op op2 st = .ok c st') :
    st' = { st with regs := (specRegCcr i st).1, ccr := (specRegCcr i st).2 } := by
  btst_rn Spec.instrOf_BTST_RN_IND Spec.pat_BTST_RN_IND

theorem BTST_RN_AA8 (op op2 : BitVec 16) (st st' : Cpu) (c : BitVec 8) (i : Spec.Instr)
    (hp : Spec.Form.pat .BTST_RN_AA8 op op2 0 0 0 = true)
    (hi : Spec.instrOf .BTST_RN_AA8 op op2 0 0 0 = some i) (h : btstAbs true op op2 st = .ok c st') :
    st' = { st with regs := (specRegCcr i st).1, ccr := (specRegCcr i st).2 } := by
  btst_rn Spec.instrOf_BTST_RN_AA8 Spec.pat_BTST_RN_AA8

end H8.Props.C04N
