/-
  C20, register forms — the charge of every register-only handler proved in C01–C03 is exactly the fetch
  cycles of the manual's mix, looked up at the instruction's own address with the bus settings in force:
  for every encoding of the form and every state, `handler op st = ok c st'` implies `c` is the result of
  `costI k` (k = the mix's I count, all other counts zero) in a state with `st`'s operating PC and bus.
  With `C20.cost_at` that is  k × (per-cycle cost of C19 at the instruction's area).
-/
import H8.Props.Common
import H8.Lemmas.Cost
import H8.Props.C04H
set_option linter.unusedSimpArgs false
namespace H8.Props.C20R
open H8 H8.Lemmas H8.Props

/-- `c` is the lookup `costI k` in a state with the instruction's address and the bus of `st` -/
def ChargedI (k : BitVec 8) (st : Cpu) (c : BitVec 8) : Prop :=
  ∃ s, costI k s = .ok c s ∧ s.opc = st.opc ∧ s.bus = st.bus

theorem szB_ne_L : (Sz.B == Sz.L) = false := by decide
theorem szW_ne_L : (Sz.W == Sz.L) = false := by decide

set_option hygiene false in
local macro "cost_tac" : tactic => `(tactic|
  (try (have h4 : (nib op 4).ule 7#8 = true := by (simp only [nib]; bv_decide))
   try (have h3 : (nib op 3 &&& 7).ule 7#8 = true := by (simp only [nib]; bv_decide))
   simp only [unary, atSz1, notProc, negProc, inc, dec, extu, addsSubs, shift, movRn, movImm, movPccSz, movPcc, logicRn, logicBImm,
     logicFlagsSz, logicFlags_ok, LOp.ap, addBRn, addWRn, addLRn, subB, subWRn, subLRn, cmpBRn, cmpWRn, cmpLRn, addBImm, cmpBImm,
     addxRn, addxImm, aluImmB, bmodRnRn, bmodRnImm, btstRnRn, btstImmRn, btstSet, bstRn, baccRn, readCcr_ok, addProc8, addProc16, addProc32, subCalc8, subCalc16, subCalc32, addxProc_eq,
     readRn, writeRn, bind_ok, pure_ok, get_ok, readRnB_nib, writeRnB_nib,
     readRnW_nib, writeRnW_nib, writeCcr_ite, writeCcr_zero, writeCcr_one, changeCcr_ok, beq_self_eq_true, szL_ne_W, ↓reduceIte,
     Bool.false_eq_true, szB_ne_L, szW_ne_L, iBase] at h
   try (simp only [readRnL_ok _ _ h4, readRnL_ok _ _ h3, writeRnL_ok _ _ _ h4, bind_ok, pure_ok, get_ok, writeCcr_ite, writeCcr_zero,
     writeCcr_one, changeCcr_ok, beq_self_eq_true, szL_ne_W, ↓reduceIte, Bool.false_eq_true, addProc32, subCalc32] at h)
   try (rw [C04H.writeCcr_val _ _ _ (C04H.bacc_value _ _ _ _)] at h; simp only [bind_ok] at h)
   have hs := costI_state h
   subst hs
   exact ⟨_, h, rfl, rfl⟩))


theorem cost_MOV_B_RR (op : BitVec 16) (st st' : Cpu) (c : BitVec 8) (hp : Spec.Form.pat .MOV_B_RR op 0 0 0 0 = true)
    (h : movRn .B op st = .ok c st') : ChargedI 1 st c ∧ Spec.Form.mix .MOV_B_RR = { i := 1 } := by
  refine ⟨?_, rfl⟩
  rw [Spec.pat_MOV_B_RR] at hp; simp only [Bool.and_eq_true, beq_iff_eq] at hp
  cost_tac

theorem cost_MOV_W_RR (op : BitVec 16) (st st' : Cpu) (c : BitVec 8) (hp : Spec.Form.pat .MOV_W_RR op 0 0 0 0 = true)
    (h : movRn .W op st = .ok c st') : ChargedI 1 st c ∧ Spec.Form.mix .MOV_W_RR = { i := 1 } := by
  refine ⟨?_, rfl⟩
  rw [Spec.pat_MOV_W_RR] at hp; simp only [Bool.and_eq_true, beq_iff_eq] at hp
  cost_tac

theorem cost_MOV_L_RR (op : BitVec 16) (st st' : Cpu) (c : BitVec 8) (hp : Spec.Form.pat .MOV_L_RR op 0 0 0 0 = true)
    (h : movRn .L op st = .ok c st') : ChargedI 1 st c ∧ Spec.Form.mix .MOV_L_RR = { i := 1 } := by
  refine ⟨?_, rfl⟩
  rw [Spec.pat_MOV_L_RR] at hp; simp only [Bool.and_eq_true, beq_iff_eq] at hp
  cost_tac

theorem cost_MOV_B_IMM (op : BitVec 16) (st st' : Cpu) (c : BitVec 8) (hp : Spec.Form.pat .MOV_B_IMM op 0 0 0 0 = true)
    (h : movImm .B op st = .ok c st') : ChargedI 1 st c ∧ Spec.Form.mix .MOV_B_IMM = { i := 1 } := by
  refine ⟨?_, rfl⟩
  rw [Spec.pat_MOV_B_IMM] at hp; simp only [Bool.and_eq_true, beq_iff_eq] at hp
  cost_tac

theorem cost_ADD_B_RR (op : BitVec 16) (st st' : Cpu) (c : BitVec 8) (hp : Spec.Form.pat .ADD_B_RR op 0 0 0 0 = true)
    (h : addBRn op st = .ok c st') : ChargedI 1 st c ∧ Spec.Form.mix .ADD_B_RR = { i := 1 } := by
  refine ⟨?_, rfl⟩
  rw [Spec.pat_ADD_B_RR] at hp; simp only [Bool.and_eq_true, beq_iff_eq] at hp
  cost_tac

theorem cost_ADD_W_RR (op : BitVec 16) (st st' : Cpu) (c : BitVec 8) (hp : Spec.Form.pat .ADD_W_RR op 0 0 0 0 = true)
    (h : addWRn op st = .ok c st') : ChargedI 1 st c ∧ Spec.Form.mix .ADD_W_RR = { i := 1 } := by
  refine ⟨?_, rfl⟩
  rw [Spec.pat_ADD_W_RR] at hp; simp only [Bool.and_eq_true, beq_iff_eq] at hp
  cost_tac

theorem cost_SUB_B_RR (op : BitVec 16) (st st' : Cpu) (c : BitVec 8) (hp : Spec.Form.pat .SUB_B_RR op 0 0 0 0 = true)
    (h : subB op st = .ok c st') : ChargedI 1 st c ∧ Spec.Form.mix .SUB_B_RR = { i := 1 } := by
  refine ⟨?_, rfl⟩
  rw [Spec.pat_SUB_B_RR] at hp; simp only [Bool.and_eq_true, beq_iff_eq] at hp
  cost_tac

theorem cost_SUB_W_RR (op : BitVec 16) (st st' : Cpu) (c : BitVec 8) (hp : Spec.Form.pat .SUB_W_RR op 0 0 0 0 = true)
    (h : subWRn op st = .ok c st') : ChargedI 1 st c ∧ Spec.Form.mix .SUB_W_RR = { i := 1 } := by
  refine ⟨?_, rfl⟩
  rw [Spec.pat_SUB_W_RR] at hp; simp only [Bool.and_eq_true, beq_iff_eq] at hp
  cost_tac

theorem cost_CMP_B_RR (op : BitVec 16) (st st' : Cpu) (c : BitVec 8) (hp : Spec.Form.pat .CMP_B_RR op 0 0 0 0 = true)
    (h : cmpBRn op st = .ok c st') : ChargedI 1 st c ∧ Spec.Form.mix .CMP_B_RR = { i := 1 } := by
  refine ⟨?_, rfl⟩
  rw [Spec.pat_CMP_B_RR] at hp; simp only [Bool.and_eq_true, beq_iff_eq] at hp
  cost_tac

theorem cost_CMP_W_RR (op : BitVec 16) (st st' : Cpu) (c : BitVec 8) (hp : Spec.Form.pat .CMP_W_RR op 0 0 0 0 = true)
    (h : cmpWRn op st = .ok c st') : ChargedI 1 st c ∧ Spec.Form.mix .CMP_W_RR = { i := 1 } := by
  refine ⟨?_, rfl⟩
  rw [Spec.pat_CMP_W_RR] at hp; simp only [Bool.and_eq_true, beq_iff_eq] at hp
  cost_tac

theorem cost_ADDX_RR (op : BitVec 16) (st st' : Cpu) (c : BitVec 8) (hp : Spec.Form.pat .ADDX_RR op 0 0 0 0 = true)
    (h : addxRn op st = .ok c st') : ChargedI 1 st c ∧ Spec.Form.mix .ADDX_RR = { i := 1 } := by
  refine ⟨?_, rfl⟩
  rw [Spec.pat_ADDX_RR] at hp; simp only [Bool.and_eq_true, beq_iff_eq] at hp
  cost_tac

theorem cost_ADD_L_RR (op : BitVec 16) (st st' : Cpu) (c : BitVec 8) (hp : Spec.Form.pat .ADD_L_RR op 0 0 0 0 = true)
    (h : addLRn op st = .ok c st') : ChargedI 1 st c ∧ Spec.Form.mix .ADD_L_RR = { i := 1 } := by
  refine ⟨?_, rfl⟩
  rw [Spec.pat_ADD_L_RR] at hp; simp only [Bool.and_eq_true, beq_iff_eq] at hp
  cost_tac

theorem cost_SUB_L_RR (op : BitVec 16) (st st' : Cpu) (c : BitVec 8) (hp : Spec.Form.pat .SUB_L_RR op 0 0 0 0 = true)
    (h : subLRn op st = .ok c st') : ChargedI 1 st c ∧ Spec.Form.mix .SUB_L_RR = { i := 1 } := by
  refine ⟨?_, rfl⟩
  rw [Spec.pat_SUB_L_RR] at hp; simp only [Bool.and_eq_true, beq_iff_eq] at hp
  cost_tac

theorem cost_CMP_L_RR (op : BitVec 16) (st st' : Cpu) (c : BitVec 8) (hp : Spec.Form.pat .CMP_L_RR op 0 0 0 0 = true)
    (h : cmpLRn op st = .ok c st') : ChargedI 1 st c ∧ Spec.Form.mix .CMP_L_RR = { i := 1 } := by
  refine ⟨?_, rfl⟩
  rw [Spec.pat_CMP_L_RR] at hp; simp only [Bool.and_eq_true, beq_iff_eq] at hp
  cost_tac

theorem cost_ADD_B_IMM (op : BitVec 16) (st st' : Cpu) (c : BitVec 8) (hp : Spec.Form.pat .ADD_B_IMM op 0 0 0 0 = true)
    (h : addBImm op st = .ok c st') : ChargedI 1 st c ∧ Spec.Form.mix .ADD_B_IMM = { i := 1 } := by
  refine ⟨?_, rfl⟩
  rw [Spec.pat_ADD_B_IMM] at hp; simp only [Bool.and_eq_true, beq_iff_eq] at hp
  cost_tac

theorem cost_CMP_B_IMM (op : BitVec 16) (st st' : Cpu) (c : BitVec 8) (hp : Spec.Form.pat .CMP_B_IMM op 0 0 0 0 = true)
    (h : cmpBImm op st = .ok c st') : ChargedI 1 st c ∧ Spec.Form.mix .CMP_B_IMM = { i := 1 } := by
  refine ⟨?_, rfl⟩
  rw [Spec.pat_CMP_B_IMM] at hp; simp only [Bool.and_eq_true, beq_iff_eq] at hp
  cost_tac

theorem cost_ADDX_IMM (op : BitVec 16) (st st' : Cpu) (c : BitVec 8) (hp : Spec.Form.pat .ADDX_IMM op 0 0 0 0 = true)
    (h : addxImm op st = .ok c st') : ChargedI 1 st c ∧ Spec.Form.mix .ADDX_IMM = { i := 1 } := by
  refine ⟨?_, rfl⟩
  rw [Spec.pat_ADDX_IMM] at hp; simp only [Bool.and_eq_true, beq_iff_eq] at hp
  cost_tac

theorem cost_ADDS_1 (op : BitVec 16) (st st' : Cpu) (c : BitVec 8) (hp : Spec.Form.pat .ADDS_1 op 0 0 0 0 = true)
    (h : addsSubs 1 op st = .ok c st') : ChargedI 1 st c ∧ Spec.Form.mix .ADDS_1 = { i := 1 } := by
  refine ⟨?_, rfl⟩
  rw [Spec.pat_ADDS_1] at hp; simp only [Bool.and_eq_true, beq_iff_eq] at hp
  cost_tac

theorem cost_ADDS_2 (op : BitVec 16) (st st' : Cpu) (c : BitVec 8) (hp : Spec.Form.pat .ADDS_2 op 0 0 0 0 = true)
    (h : addsSubs 2 op st = .ok c st') : ChargedI 1 st c ∧ Spec.Form.mix .ADDS_2 = { i := 1 } := by
  refine ⟨?_, rfl⟩
  rw [Spec.pat_ADDS_2] at hp; simp only [Bool.and_eq_true, beq_iff_eq] at hp
  cost_tac

theorem cost_ADDS_4 (op : BitVec 16) (st st' : Cpu) (c : BitVec 8) (hp : Spec.Form.pat .ADDS_4 op 0 0 0 0 = true)
    (h : addsSubs 4 op st = .ok c st') : ChargedI 1 st c ∧ Spec.Form.mix .ADDS_4 = { i := 1 } := by
  refine ⟨?_, rfl⟩
  rw [Spec.pat_ADDS_4] at hp; simp only [Bool.and_eq_true, beq_iff_eq] at hp
  cost_tac

theorem cost_SUBS_1 (op : BitVec 16) (st st' : Cpu) (c : BitVec 8) (hp : Spec.Form.pat .SUBS_1 op 0 0 0 0 = true)
    (h : addsSubs 0xffffffff op st = .ok c st') : ChargedI 1 st c ∧ Spec.Form.mix .SUBS_1 = { i := 1 } := by
  refine ⟨?_, rfl⟩
  rw [Spec.pat_SUBS_1] at hp; simp only [Bool.and_eq_true, beq_iff_eq] at hp
  cost_tac

theorem cost_SUBS_2 (op : BitVec 16) (st st' : Cpu) (c : BitVec 8) (hp : Spec.Form.pat .SUBS_2 op 0 0 0 0 = true)
    (h : addsSubs 0xfffffffe op st = .ok c st') : ChargedI 1 st c ∧ Spec.Form.mix .SUBS_2 = { i := 1 } := by
  refine ⟨?_, rfl⟩
  rw [Spec.pat_SUBS_2] at hp; simp only [Bool.and_eq_true, beq_iff_eq] at hp
  cost_tac

theorem cost_SUBS_4 (op : BitVec 16) (st st' : Cpu) (c : BitVec 8) (hp : Spec.Form.pat .SUBS_4 op 0 0 0 0 = true)
    (h : addsSubs 0xfffffffc op st = .ok c st') : ChargedI 1 st c ∧ Spec.Form.mix .SUBS_4 = { i := 1 } := by
  refine ⟨?_, rfl⟩
  rw [Spec.pat_SUBS_4] at hp; simp only [Bool.and_eq_true, beq_iff_eq] at hp
  cost_tac

theorem cost_INC_B (op : BitVec 16) (st st' : Cpu) (c : BitVec 8) (hp : Spec.Form.pat .INC_B op 0 0 0 0 = true)
    (h : inc .B 1 op st = .ok c st') : ChargedI 1 st c ∧ Spec.Form.mix .INC_B = { i := 1 } := by
  refine ⟨?_, rfl⟩
  rw [Spec.pat_INC_B] at hp; simp only [Bool.and_eq_true, beq_iff_eq] at hp
  cost_tac

theorem cost_INC_W_1 (op : BitVec 16) (st st' : Cpu) (c : BitVec 8) (hp : Spec.Form.pat .INC_W_1 op 0 0 0 0 = true)
    (h : inc .W 1 op st = .ok c st') : ChargedI 1 st c ∧ Spec.Form.mix .INC_W_1 = { i := 1 } := by
  refine ⟨?_, rfl⟩
  rw [Spec.pat_INC_W_1] at hp; simp only [Bool.and_eq_true, beq_iff_eq] at hp
  cost_tac

theorem cost_INC_W_2 (op : BitVec 16) (st st' : Cpu) (c : BitVec 8) (hp : Spec.Form.pat .INC_W_2 op 0 0 0 0 = true)
    (h : inc .W 2 op st = .ok c st') : ChargedI 1 st c ∧ Spec.Form.mix .INC_W_2 = { i := 1 } := by
  refine ⟨?_, rfl⟩
  rw [Spec.pat_INC_W_2] at hp; simp only [Bool.and_eq_true, beq_iff_eq] at hp
  cost_tac

theorem cost_INC_L_1 (op : BitVec 16) (st st' : Cpu) (c : BitVec 8) (hp : Spec.Form.pat .INC_L_1 op 0 0 0 0 = true)
    (h : inc .L 1 op st = .ok c st') : ChargedI 1 st c ∧ Spec.Form.mix .INC_L_1 = { i := 1 } := by
  refine ⟨?_, rfl⟩
  rw [Spec.pat_INC_L_1] at hp; simp only [Bool.and_eq_true, beq_iff_eq] at hp
  cost_tac

theorem cost_INC_L_2 (op : BitVec 16) (st st' : Cpu) (c : BitVec 8) (hp : Spec.Form.pat .INC_L_2 op 0 0 0 0 = true)
    (h : inc .L 2 op st = .ok c st') : ChargedI 1 st c ∧ Spec.Form.mix .INC_L_2 = { i := 1 } := by
  refine ⟨?_, rfl⟩
  rw [Spec.pat_INC_L_2] at hp; simp only [Bool.and_eq_true, beq_iff_eq] at hp
  cost_tac

theorem cost_DEC_B (op : BitVec 16) (st st' : Cpu) (c : BitVec 8) (hp : Spec.Form.pat .DEC_B op 0 0 0 0 = true)
    (h : dec .B 1 op st = .ok c st') : ChargedI 1 st c ∧ Spec.Form.mix .DEC_B = { i := 1 } := by
  refine ⟨?_, rfl⟩
  rw [Spec.pat_DEC_B] at hp; simp only [Bool.and_eq_true, beq_iff_eq] at hp
  cost_tac

theorem cost_DEC_W_1 (op : BitVec 16) (st st' : Cpu) (c : BitVec 8) (hp : Spec.Form.pat .DEC_W_1 op 0 0 0 0 = true)
    (h : dec .W 1 op st = .ok c st') : ChargedI 1 st c ∧ Spec.Form.mix .DEC_W_1 = { i := 1 } := by
  refine ⟨?_, rfl⟩
  rw [Spec.pat_DEC_W_1] at hp; simp only [Bool.and_eq_true, beq_iff_eq] at hp
  cost_tac

theorem cost_DEC_W_2 (op : BitVec 16) (st st' : Cpu) (c : BitVec 8) (hp : Spec.Form.pat .DEC_W_2 op 0 0 0 0 = true)
    (h : dec .W 2 op st = .ok c st') : ChargedI 1 st c ∧ Spec.Form.mix .DEC_W_2 = { i := 1 } := by
  refine ⟨?_, rfl⟩
  rw [Spec.pat_DEC_W_2] at hp; simp only [Bool.and_eq_true, beq_iff_eq] at hp
  cost_tac

theorem cost_DEC_L_1 (op : BitVec 16) (st st' : Cpu) (c : BitVec 8) (hp : Spec.Form.pat .DEC_L_1 op 0 0 0 0 = true)
    (h : dec .L 1 op st = .ok c st') : ChargedI 1 st c ∧ Spec.Form.mix .DEC_L_1 = { i := 1 } := by
  refine ⟨?_, rfl⟩
  rw [Spec.pat_DEC_L_1] at hp; simp only [Bool.and_eq_true, beq_iff_eq] at hp
  cost_tac

theorem cost_DEC_L_2 (op : BitVec 16) (st st' : Cpu) (c : BitVec 8) (hp : Spec.Form.pat .DEC_L_2 op 0 0 0 0 = true)
    (h : dec .L 2 op st = .ok c st') : ChargedI 1 st c ∧ Spec.Form.mix .DEC_L_2 = { i := 1 } := by
  refine ⟨?_, rfl⟩
  rw [Spec.pat_DEC_L_2] at hp; simp only [Bool.and_eq_true, beq_iff_eq] at hp
  cost_tac

theorem cost_NEG_B (op : BitVec 16) (st st' : Cpu) (c : BitVec 8) (hp : Spec.Form.pat .NEG_B op 0 0 0 0 = true)
    (h : unary .B negProc op st = .ok c st') : ChargedI 1 st c ∧ Spec.Form.mix .NEG_B = { i := 1 } := by
  refine ⟨?_, rfl⟩
  rw [Spec.pat_NEG_B] at hp; simp only [Bool.and_eq_true, beq_iff_eq] at hp
  cost_tac

theorem cost_NEG_W (op : BitVec 16) (st st' : Cpu) (c : BitVec 8) (hp : Spec.Form.pat .NEG_W op 0 0 0 0 = true)
    (h : unary .W negProc op st = .ok c st') : ChargedI 1 st c ∧ Spec.Form.mix .NEG_W = { i := 1 } := by
  refine ⟨?_, rfl⟩
  rw [Spec.pat_NEG_W] at hp; simp only [Bool.and_eq_true, beq_iff_eq] at hp
  cost_tac

theorem cost_NEG_L (op : BitVec 16) (st st' : Cpu) (c : BitVec 8) (hp : Spec.Form.pat .NEG_L op 0 0 0 0 = true)
    (h : unary .L negProc op st = .ok c st') : ChargedI 1 st c ∧ Spec.Form.mix .NEG_L = { i := 1 } := by
  refine ⟨?_, rfl⟩
  rw [Spec.pat_NEG_L] at hp; simp only [Bool.and_eq_true, beq_iff_eq] at hp
  cost_tac

theorem cost_EXTU_W (op : BitVec 16) (st st' : Cpu) (c : BitVec 8) (hp : Spec.Form.pat .EXTU_W op 0 0 0 0 = true)
    (h : extu .W op st = .ok c st') : ChargedI 1 st c ∧ Spec.Form.mix .EXTU_W = { i := 1 } := by
  refine ⟨?_, rfl⟩
  rw [Spec.pat_EXTU_W] at hp; simp only [Bool.and_eq_true, beq_iff_eq] at hp
  cost_tac

theorem cost_EXTU_L (op : BitVec 16) (st st' : Cpu) (c : BitVec 8) (hp : Spec.Form.pat .EXTU_L op 0 0 0 0 = true)
    (h : extu .L op st = .ok c st') : ChargedI 1 st c ∧ Spec.Form.mix .EXTU_L = { i := 1 } := by
  refine ⟨?_, rfl⟩
  rw [Spec.pat_EXTU_L] at hp; simp only [Bool.and_eq_true, beq_iff_eq] at hp
  cost_tac

theorem cost_SHLL_B (op : BitVec 16) (st st' : Cpu) (c : BitVec 8) (hp : Spec.Form.pat .SHLL_B op 0 0 0 0 = true)
    (h : shift .shll .B op st = .ok c st') : ChargedI 1 st c ∧ Spec.Form.mix .SHLL_B = { i := 1 } := by
  refine ⟨?_, rfl⟩
  rw [Spec.pat_SHLL_B] at hp; simp only [Bool.and_eq_true, beq_iff_eq] at hp
  cost_tac

theorem cost_SHLL_W (op : BitVec 16) (st st' : Cpu) (c : BitVec 8) (hp : Spec.Form.pat .SHLL_W op 0 0 0 0 = true)
    (h : shift .shll .W op st = .ok c st') : ChargedI 1 st c ∧ Spec.Form.mix .SHLL_W = { i := 1 } := by
  refine ⟨?_, rfl⟩
  rw [Spec.pat_SHLL_W] at hp; simp only [Bool.and_eq_true, beq_iff_eq] at hp
  cost_tac

theorem cost_SHLL_L (op : BitVec 16) (st st' : Cpu) (c : BitVec 8) (hp : Spec.Form.pat .SHLL_L op 0 0 0 0 = true)
    (h : shift .shll .L op st = .ok c st') : ChargedI 1 st c ∧ Spec.Form.mix .SHLL_L = { i := 1 } := by
  refine ⟨?_, rfl⟩
  rw [Spec.pat_SHLL_L] at hp; simp only [Bool.and_eq_true, beq_iff_eq] at hp
  cost_tac

theorem cost_SHLR_B (op : BitVec 16) (st st' : Cpu) (c : BitVec 8) (hp : Spec.Form.pat .SHLR_B op 0 0 0 0 = true)
    (h : shift .shlr .B op st = .ok c st') : ChargedI 1 st c ∧ Spec.Form.mix .SHLR_B = { i := 1 } := by
  refine ⟨?_, rfl⟩
  rw [Spec.pat_SHLR_B] at hp; simp only [Bool.and_eq_true, beq_iff_eq] at hp
  cost_tac

theorem cost_SHLR_W (op : BitVec 16) (st st' : Cpu) (c : BitVec 8) (hp : Spec.Form.pat .SHLR_W op 0 0 0 0 = true)
    (h : shift .shlr .W op st = .ok c st') : ChargedI 1 st c ∧ Spec.Form.mix .SHLR_W = { i := 1 } := by
  refine ⟨?_, rfl⟩
  rw [Spec.pat_SHLR_W] at hp; simp only [Bool.and_eq_true, beq_iff_eq] at hp
  cost_tac

theorem cost_SHLR_L (op : BitVec 16) (st st' : Cpu) (c : BitVec 8) (hp : Spec.Form.pat .SHLR_L op 0 0 0 0 = true)
    (h : shift .shlr .L op st = .ok c st') : ChargedI 1 st c ∧ Spec.Form.mix .SHLR_L = { i := 1 } := by
  refine ⟨?_, rfl⟩
  rw [Spec.pat_SHLR_L] at hp; simp only [Bool.and_eq_true, beq_iff_eq] at hp
  cost_tac

theorem cost_SHAR_B (op : BitVec 16) (st st' : Cpu) (c : BitVec 8) (hp : Spec.Form.pat .SHAR_B op 0 0 0 0 = true)
    (h : shift .shar .B op st = .ok c st') : ChargedI 1 st c ∧ Spec.Form.mix .SHAR_B = { i := 1 } := by
  refine ⟨?_, rfl⟩
  rw [Spec.pat_SHAR_B] at hp; simp only [Bool.and_eq_true, beq_iff_eq] at hp
  cost_tac

theorem cost_SHAR_W (op : BitVec 16) (st st' : Cpu) (c : BitVec 8) (hp : Spec.Form.pat .SHAR_W op 0 0 0 0 = true)
    (h : shift .shar .W op st = .ok c st') : ChargedI 1 st c ∧ Spec.Form.mix .SHAR_W = { i := 1 } := by
  refine ⟨?_, rfl⟩
  rw [Spec.pat_SHAR_W] at hp; simp only [Bool.and_eq_true, beq_iff_eq] at hp
  cost_tac

theorem cost_SHAR_L (op : BitVec 16) (st st' : Cpu) (c : BitVec 8) (hp : Spec.Form.pat .SHAR_L op 0 0 0 0 = true)
    (h : shift .shar .L op st = .ok c st') : ChargedI 1 st c ∧ Spec.Form.mix .SHAR_L = { i := 1 } := by
  refine ⟨?_, rfl⟩
  rw [Spec.pat_SHAR_L] at hp; simp only [Bool.and_eq_true, beq_iff_eq] at hp
  cost_tac

theorem cost_ROTL_B (op : BitVec 16) (st st' : Cpu) (c : BitVec 8) (hp : Spec.Form.pat .ROTL_B op 0 0 0 0 = true)
    (h : shift .rotl .B op st = .ok c st') : ChargedI 1 st c ∧ Spec.Form.mix .ROTL_B = { i := 1 } := by
  refine ⟨?_, rfl⟩
  rw [Spec.pat_ROTL_B] at hp; simp only [Bool.and_eq_true, beq_iff_eq] at hp
  cost_tac

theorem cost_ROTL_W (op : BitVec 16) (st st' : Cpu) (c : BitVec 8) (hp : Spec.Form.pat .ROTL_W op 0 0 0 0 = true)
    (h : shift .rotl .W op st = .ok c st') : ChargedI 1 st c ∧ Spec.Form.mix .ROTL_W = { i := 1 } := by
  refine ⟨?_, rfl⟩
  rw [Spec.pat_ROTL_W] at hp; simp only [Bool.and_eq_true, beq_iff_eq] at hp
  cost_tac

theorem cost_ROTL_L (op : BitVec 16) (st st' : Cpu) (c : BitVec 8) (hp : Spec.Form.pat .ROTL_L op 0 0 0 0 = true)
    (h : shift .rotl .L op st = .ok c st') : ChargedI 1 st c ∧ Spec.Form.mix .ROTL_L = { i := 1 } := by
  refine ⟨?_, rfl⟩
  rw [Spec.pat_ROTL_L] at hp; simp only [Bool.and_eq_true, beq_iff_eq] at hp
  cost_tac

theorem cost_ROTR_B (op : BitVec 16) (st st' : Cpu) (c : BitVec 8) (hp : Spec.Form.pat .ROTR_B op 0 0 0 0 = true)
    (h : shift .rotr .B op st = .ok c st') : ChargedI 1 st c ∧ Spec.Form.mix .ROTR_B = { i := 1 } := by
  refine ⟨?_, rfl⟩
  rw [Spec.pat_ROTR_B] at hp; simp only [Bool.and_eq_true, beq_iff_eq] at hp
  cost_tac

theorem cost_ROTR_W (op : BitVec 16) (st st' : Cpu) (c : BitVec 8) (hp : Spec.Form.pat .ROTR_W op 0 0 0 0 = true)
    (h : shift .rotr .W op st = .ok c st') : ChargedI 1 st c ∧ Spec.Form.mix .ROTR_W = { i := 1 } := by
  refine ⟨?_, rfl⟩
  rw [Spec.pat_ROTR_W] at hp; simp only [Bool.and_eq_true, beq_iff_eq] at hp
  cost_tac

theorem cost_ROTR_L (op : BitVec 16) (st st' : Cpu) (c : BitVec 8) (hp : Spec.Form.pat .ROTR_L op 0 0 0 0 = true)
    (h : shift .rotr .L op st = .ok c st') : ChargedI 1 st c ∧ Spec.Form.mix .ROTR_L = { i := 1 } := by
  refine ⟨?_, rfl⟩
  rw [Spec.pat_ROTR_L] at hp; simp only [Bool.and_eq_true, beq_iff_eq] at hp
  cost_tac

theorem cost_ROTXL_B (op : BitVec 16) (st st' : Cpu) (c : BitVec 8) (hp : Spec.Form.pat .ROTXL_B op 0 0 0 0 = true)
    (h : shift .rotxl .B op st = .ok c st') : ChargedI 1 st c ∧ Spec.Form.mix .ROTXL_B = { i := 1 } := by
  refine ⟨?_, rfl⟩
  rw [Spec.pat_ROTXL_B] at hp; simp only [Bool.and_eq_true, beq_iff_eq] at hp
  cost_tac

theorem cost_ROTXL_W (op : BitVec 16) (st st' : Cpu) (c : BitVec 8) (hp : Spec.Form.pat .ROTXL_W op 0 0 0 0 = true)
    (h : shift .rotxl .W op st = .ok c st') : ChargedI 1 st c ∧ Spec.Form.mix .ROTXL_W = { i := 1 } := by
  refine ⟨?_, rfl⟩
  rw [Spec.pat_ROTXL_W] at hp; simp only [Bool.and_eq_true, beq_iff_eq] at hp
  cost_tac

theorem cost_ROTXL_L (op : BitVec 16) (st st' : Cpu) (c : BitVec 8) (hp : Spec.Form.pat .ROTXL_L op 0 0 0 0 = true)
    (h : shift .rotxl .L op st = .ok c st') : ChargedI 1 st c ∧ Spec.Form.mix .ROTXL_L = { i := 1 } := by
  refine ⟨?_, rfl⟩
  rw [Spec.pat_ROTXL_L] at hp; simp only [Bool.and_eq_true, beq_iff_eq] at hp
  cost_tac

theorem cost_ROTXR_B (op : BitVec 16) (st st' : Cpu) (c : BitVec 8) (hp : Spec.Form.pat .ROTXR_B op 0 0 0 0 = true)
    (h : shift .rotxr .B op st = .ok c st') : ChargedI 1 st c ∧ Spec.Form.mix .ROTXR_B = { i := 1 } := by
  refine ⟨?_, rfl⟩
  rw [Spec.pat_ROTXR_B] at hp; simp only [Bool.and_eq_true, beq_iff_eq] at hp
  cost_tac

theorem cost_ROTXR_W (op : BitVec 16) (st st' : Cpu) (c : BitVec 8) (hp : Spec.Form.pat .ROTXR_W op 0 0 0 0 = true)
    (h : shift .rotxr .W op st = .ok c st') : ChargedI 1 st c ∧ Spec.Form.mix .ROTXR_W = { i := 1 } := by
  refine ⟨?_, rfl⟩
  rw [Spec.pat_ROTXR_W] at hp; simp only [Bool.and_eq_true, beq_iff_eq] at hp
  cost_tac

theorem cost_ROTXR_L (op : BitVec 16) (st st' : Cpu) (c : BitVec 8) (hp : Spec.Form.pat .ROTXR_L op 0 0 0 0 = true)
    (h : shift .rotxr .L op st = .ok c st') : ChargedI 1 st c ∧ Spec.Form.mix .ROTXR_L = { i := 1 } := by
  refine ⟨?_, rfl⟩
  rw [Spec.pat_ROTXR_L] at hp; simp only [Bool.and_eq_true, beq_iff_eq] at hp
  cost_tac

theorem cost_NOT_B (op : BitVec 16) (st st' : Cpu) (c : BitVec 8) (hp : Spec.Form.pat .NOT_B op 0 0 0 0 = true)
    (h : unary .B notProc op st = .ok c st') : ChargedI 1 st c ∧ Spec.Form.mix .NOT_B = { i := 1 } := by
  refine ⟨?_, rfl⟩
  rw [Spec.pat_NOT_B] at hp; simp only [Bool.and_eq_true, beq_iff_eq] at hp
  cost_tac

theorem cost_NOT_W (op : BitVec 16) (st st' : Cpu) (c : BitVec 8) (hp : Spec.Form.pat .NOT_W op 0 0 0 0 = true)
    (h : unary .W notProc op st = .ok c st') : ChargedI 1 st c ∧ Spec.Form.mix .NOT_W = { i := 1 } := by
  refine ⟨?_, rfl⟩
  rw [Spec.pat_NOT_W] at hp; simp only [Bool.and_eq_true, beq_iff_eq] at hp
  cost_tac

theorem cost_NOT_L (op : BitVec 16) (st st' : Cpu) (c : BitVec 8) (hp : Spec.Form.pat .NOT_L op 0 0 0 0 = true)
    (h : unary .L notProc op st = .ok c st') : ChargedI 1 st c ∧ Spec.Form.mix .NOT_L = { i := 1 } := by
  refine ⟨?_, rfl⟩
  rw [Spec.pat_NOT_L] at hp; simp only [Bool.and_eq_true, beq_iff_eq] at hp
  cost_tac

theorem cost_AND_B_RR (op : BitVec 16) (st st' : Cpu) (c : BitVec 8) (hp : Spec.Form.pat .AND_B_RR op 0 0 0 0 = true)
    (h : logicRn .and .B op 1 st = .ok c st') : ChargedI 1 st c ∧ Spec.Form.mix .AND_B_RR = { i := 1 } := by
  refine ⟨?_, rfl⟩
  rw [Spec.pat_AND_B_RR] at hp; simp only [Bool.and_eq_true, beq_iff_eq] at hp
  cost_tac

theorem cost_AND_W_RR (op : BitVec 16) (st st' : Cpu) (c : BitVec 8) (hp : Spec.Form.pat .AND_W_RR op 0 0 0 0 = true)
    (h : logicRn .and .W op 1 st = .ok c st') : ChargedI 1 st c ∧ Spec.Form.mix .AND_W_RR = { i := 1 } := by
  refine ⟨?_, rfl⟩
  rw [Spec.pat_AND_W_RR] at hp; simp only [Bool.and_eq_true, beq_iff_eq] at hp
  cost_tac

theorem cost_AND_B_IMM (op : BitVec 16) (st st' : Cpu) (c : BitVec 8) (hp : Spec.Form.pat .AND_B_IMM op 0 0 0 0 = true)
    (h : logicBImm .and op st = .ok c st') : ChargedI 1 st c ∧ Spec.Form.mix .AND_B_IMM = { i := 1 } := by
  refine ⟨?_, rfl⟩
  rw [Spec.pat_AND_B_IMM] at hp; simp only [Bool.and_eq_true, beq_iff_eq] at hp
  cost_tac

theorem cost_OR_B_RR (op : BitVec 16) (st st' : Cpu) (c : BitVec 8) (hp : Spec.Form.pat .OR_B_RR op 0 0 0 0 = true)
    (h : logicRn .or .B op 1 st = .ok c st') : ChargedI 1 st c ∧ Spec.Form.mix .OR_B_RR = { i := 1 } := by
  refine ⟨?_, rfl⟩
  rw [Spec.pat_OR_B_RR] at hp; simp only [Bool.and_eq_true, beq_iff_eq] at hp
  cost_tac

theorem cost_OR_W_RR (op : BitVec 16) (st st' : Cpu) (c : BitVec 8) (hp : Spec.Form.pat .OR_W_RR op 0 0 0 0 = true)
    (h : logicRn .or .W op 1 st = .ok c st') : ChargedI 1 st c ∧ Spec.Form.mix .OR_W_RR = { i := 1 } := by
  refine ⟨?_, rfl⟩
  rw [Spec.pat_OR_W_RR] at hp; simp only [Bool.and_eq_true, beq_iff_eq] at hp
  cost_tac

theorem cost_OR_B_IMM (op : BitVec 16) (st st' : Cpu) (c : BitVec 8) (hp : Spec.Form.pat .OR_B_IMM op 0 0 0 0 = true)
    (h : logicBImm .or op st = .ok c st') : ChargedI 1 st c ∧ Spec.Form.mix .OR_B_IMM = { i := 1 } := by
  refine ⟨?_, rfl⟩
  rw [Spec.pat_OR_B_IMM] at hp; simp only [Bool.and_eq_true, beq_iff_eq] at hp
  cost_tac

theorem cost_XOR_B_RR (op : BitVec 16) (st st' : Cpu) (c : BitVec 8) (hp : Spec.Form.pat .XOR_B_RR op 0 0 0 0 = true)
    (h : logicRn .xor .B op 1 st = .ok c st') : ChargedI 1 st c ∧ Spec.Form.mix .XOR_B_RR = { i := 1 } := by
  refine ⟨?_, rfl⟩
  rw [Spec.pat_XOR_B_RR] at hp; simp only [Bool.and_eq_true, beq_iff_eq] at hp
  cost_tac

theorem cost_XOR_W_RR (op : BitVec 16) (st st' : Cpu) (c : BitVec 8) (hp : Spec.Form.pat .XOR_W_RR op 0 0 0 0 = true)
    (h : logicRn .xor .W op 1 st = .ok c st') : ChargedI 1 st c ∧ Spec.Form.mix .XOR_W_RR = { i := 1 } := by
  refine ⟨?_, rfl⟩
  rw [Spec.pat_XOR_W_RR] at hp; simp only [Bool.and_eq_true, beq_iff_eq] at hp
  cost_tac

theorem cost_XOR_B_IMM (op : BitVec 16) (st st' : Cpu) (c : BitVec 8) (hp : Spec.Form.pat .XOR_B_IMM op 0 0 0 0 = true)
    (h : logicBImm .xor op st = .ok c st') : ChargedI 1 st c ∧ Spec.Form.mix .XOR_B_IMM = { i := 1 } := by
  refine ⟨?_, rfl⟩
  rw [Spec.pat_XOR_B_IMM] at hp; simp only [Bool.and_eq_true, beq_iff_eq] at hp
  cost_tac

theorem cost_BSET_RR (op : BitVec 16) (st st' : Cpu) (c : BitVec 8) (hp : Spec.Form.pat .BSET_RR op 0 0 0 0 = true)
    (h : bmodRnRn .set op st = .ok c st') : ChargedI 1 st c ∧ Spec.Form.mix .BSET_RR = { i := 1 } := by
  refine ⟨?_, rfl⟩
  rw [Spec.pat_BSET_RR] at hp; simp only [Bool.and_eq_true, beq_iff_eq] at hp
  cost_tac

theorem cost_BNOT_RR (op : BitVec 16) (st st' : Cpu) (c : BitVec 8) (hp : Spec.Form.pat .BNOT_RR op 0 0 0 0 = true)
    (h : bmodRnRn .not_ op st = .ok c st') : ChargedI 1 st c ∧ Spec.Form.mix .BNOT_RR = { i := 1 } := by
  refine ⟨?_, rfl⟩
  rw [Spec.pat_BNOT_RR] at hp; simp only [Bool.and_eq_true, beq_iff_eq] at hp
  cost_tac

theorem cost_BCLR_RR (op : BitVec 16) (st st' : Cpu) (c : BitVec 8) (hp : Spec.Form.pat .BCLR_RR op 0 0 0 0 = true)
    (h : bmodRnRn .clr op st = .ok c st') : ChargedI 1 st c ∧ Spec.Form.mix .BCLR_RR = { i := 1 } := by
  refine ⟨?_, rfl⟩
  rw [Spec.pat_BCLR_RR] at hp; simp only [Bool.and_eq_true, beq_iff_eq] at hp
  cost_tac

theorem cost_BTST_RR (op : BitVec 16) (st st' : Cpu) (c : BitVec 8) (hp : Spec.Form.pat .BTST_RR op 0 0 0 0 = true)
    (h : btstRnRn op st = .ok c st') : ChargedI 1 st c ∧ Spec.Form.mix .BTST_RR = { i := 1 } := by
  refine ⟨?_, rfl⟩
  rw [Spec.pat_BTST_RR] at hp; simp only [Bool.and_eq_true, beq_iff_eq] at hp
  cost_tac

theorem cost_BST_R (op : BitVec 16) (st st' : Cpu) (c : BitVec 8) (hp : Spec.Form.pat .BST_R op 0 0 0 0 = true)
    (h : bstRn false op st = .ok c st') : ChargedI 1 st c ∧ Spec.Form.mix .BST_R = { i := 1 } := by
  refine ⟨?_, rfl⟩
  rw [Spec.pat_BST_R] at hp; simp only [Bool.and_eq_true, beq_iff_eq] at hp
  cost_tac

theorem cost_BIST_R (op : BitVec 16) (st st' : Cpu) (c : BitVec 8) (hp : Spec.Form.pat .BIST_R op 0 0 0 0 = true)
    (h : bstRn true op st = .ok c st') : ChargedI 1 st c ∧ Spec.Form.mix .BIST_R = { i := 1 } := by
  refine ⟨?_, rfl⟩
  rw [Spec.pat_BIST_R] at hp; simp only [Bool.and_eq_true, beq_iff_eq] at hp
  cost_tac

theorem cost_BSET_I (op : BitVec 16) (st st' : Cpu) (c : BitVec 8) (hp : Spec.Form.pat .BSET_I op 0 0 0 0 = true)
    (h : bmodRnImm .set op st = .ok c st') : ChargedI 1 st c ∧ Spec.Form.mix .BSET_I = { i := 1 } := by
  refine ⟨?_, rfl⟩
  rw [Spec.pat_BSET_I] at hp; simp only [Bool.and_eq_true, beq_iff_eq] at hp
  cost_tac

theorem cost_BNOT_I (op : BitVec 16) (st st' : Cpu) (c : BitVec 8) (hp : Spec.Form.pat .BNOT_I op 0 0 0 0 = true)
    (h : bmodRnImm .not_ op st = .ok c st') : ChargedI 1 st c ∧ Spec.Form.mix .BNOT_I = { i := 1 } := by
  refine ⟨?_, rfl⟩
  rw [Spec.pat_BNOT_I] at hp; simp only [Bool.and_eq_true, beq_iff_eq] at hp
  cost_tac

theorem cost_BCLR_I (op : BitVec 16) (st st' : Cpu) (c : BitVec 8) (hp : Spec.Form.pat .BCLR_I op 0 0 0 0 = true)
    (h : bmodRnImm .clr op st = .ok c st') : ChargedI 1 st c ∧ Spec.Form.mix .BCLR_I = { i := 1 } := by
  refine ⟨?_, rfl⟩
  rw [Spec.pat_BCLR_I] at hp; simp only [Bool.and_eq_true, beq_iff_eq] at hp
  cost_tac

theorem cost_BTST_I (op : BitVec 16) (st st' : Cpu) (c : BitVec 8) (hp : Spec.Form.pat .BTST_I op 0 0 0 0 = true)
    (h : btstImmRn op st = .ok c st') : ChargedI 1 st c ∧ Spec.Form.mix .BTST_I = { i := 1 } := by
  refine ⟨?_, rfl⟩
  rw [Spec.pat_BTST_I] at hp; simp only [Bool.and_eq_true, beq_iff_eq] at hp
  cost_tac

theorem cost_BOR_R (op : BitVec 16) (st st' : Cpu) (c : BitVec 8) (hp : Spec.Form.pat .BOR_R op 0 0 0 0 = true)
    (h : baccRn .or op st = .ok c st') : ChargedI 1 st c ∧ Spec.Form.mix .BOR_R = { i := 1 } := by
  refine ⟨?_, rfl⟩
  rw [Spec.pat_BOR_R] at hp; simp only [Bool.and_eq_true, beq_iff_eq] at hp
  cost_tac

theorem cost_BIOR_R (op : BitVec 16) (st st' : Cpu) (c : BitVec 8) (hp : Spec.Form.pat .BIOR_R op 0 0 0 0 = true)
    (h : baccRn .ior op st = .ok c st') : ChargedI 1 st c ∧ Spec.Form.mix .BIOR_R = { i := 1 } := by
  refine ⟨?_, rfl⟩
  rw [Spec.pat_BIOR_R] at hp; simp only [Bool.and_eq_true, beq_iff_eq] at hp
  cost_tac

theorem cost_BXOR_R (op : BitVec 16) (st st' : Cpu) (c : BitVec 8) (hp : Spec.Form.pat .BXOR_R op 0 0 0 0 = true)
    (h : baccRn .xor op st = .ok c st') : ChargedI 1 st c ∧ Spec.Form.mix .BXOR_R = { i := 1 } := by
  refine ⟨?_, rfl⟩
  rw [Spec.pat_BXOR_R] at hp; simp only [Bool.and_eq_true, beq_iff_eq] at hp
  cost_tac

theorem cost_BIXOR_R (op : BitVec 16) (st st' : Cpu) (c : BitVec 8) (hp : Spec.Form.pat .BIXOR_R op 0 0 0 0 = true)
    (h : baccRn .ixor op st = .ok c st') : ChargedI 1 st c ∧ Spec.Form.mix .BIXOR_R = { i := 1 } := by
  refine ⟨?_, rfl⟩
  rw [Spec.pat_BIXOR_R] at hp; simp only [Bool.and_eq_true, beq_iff_eq] at hp
  cost_tac

theorem cost_BAND_R (op : BitVec 16) (st st' : Cpu) (c : BitVec 8) (hp : Spec.Form.pat .BAND_R op 0 0 0 0 = true)
    (h : baccRn .and op st = .ok c st') : ChargedI 1 st c ∧ Spec.Form.mix .BAND_R = { i := 1 } := by
  refine ⟨?_, rfl⟩
  rw [Spec.pat_BAND_R] at hp; simp only [Bool.and_eq_true, beq_iff_eq] at hp
  cost_tac

theorem cost_BIAND_R (op : BitVec 16) (st st' : Cpu) (c : BitVec 8) (hp : Spec.Form.pat .BIAND_R op 0 0 0 0 = true)
    (h : baccRn .iand op st = .ok c st') : ChargedI 1 st c ∧ Spec.Form.mix .BIAND_R = { i := 1 } := by
  refine ⟨?_, rfl⟩
  rw [Spec.pat_BIAND_R] at hp; simp only [Bool.and_eq_true, beq_iff_eq] at hp
  cost_tac

theorem cost_BLD_R (op : BitVec 16) (st st' : Cpu) (c : BitVec 8) (hp : Spec.Form.pat .BLD_R op 0 0 0 0 = true)
    (h : baccRn .ld op st = .ok c st') : ChargedI 1 st c ∧ Spec.Form.mix .BLD_R = { i := 1 } := by
  refine ⟨?_, rfl⟩
  rw [Spec.pat_BLD_R] at hp; simp only [Bool.and_eq_true, beq_iff_eq] at hp
  cost_tac

theorem cost_BILD_R (op : BitVec 16) (st st' : Cpu) (c : BitVec 8) (hp : Spec.Form.pat .BILD_R op 0 0 0 0 = true)
    (h : baccRn .ild op st = .ok c st') : ChargedI 1 st c ∧ Spec.Form.mix .BILD_R = { i := 1 } := by
  refine ⟨?_, rfl⟩
  rw [Spec.pat_BILD_R] at hp; simp only [Bool.and_eq_true, beq_iff_eq] at hp
  cost_tac

/-! SHAL.B/W/L: the V flag of these handlers is a known finding (C03-SHAL-V); their charge is the manual's all the same -/

theorem cost_SHAL_B (op : BitVec 16) (st st' : Cpu) (c : BitVec 8) (hp : Spec.Form.pat .SHAL_B op 0 0 0 0 = true)
    (h : shift .shal .B op st = .ok c st') : ChargedI 1 st c ∧ Spec.Form.mix .SHAL_B = { i := 1 } := by
  refine ⟨?_, rfl⟩
  rw [Spec.pat_SHAL_B] at hp; simp only [Bool.and_eq_true, beq_iff_eq] at hp
  cost_tac

theorem cost_SHAL_W (op : BitVec 16) (st st' : Cpu) (c : BitVec 8) (hp : Spec.Form.pat .SHAL_W op 0 0 0 0 = true)
    (h : shift .shal .W op st = .ok c st') : ChargedI 1 st c ∧ Spec.Form.mix .SHAL_W = { i := 1 } := by
  refine ⟨?_, rfl⟩
  rw [Spec.pat_SHAL_W] at hp; simp only [Bool.and_eq_true, beq_iff_eq] at hp
  cost_tac

theorem cost_SHAL_L (op : BitVec 16) (st st' : Cpu) (c : BitVec 8) (hp : Spec.Form.pat .SHAL_L op 0 0 0 0 = true)
    (h : shift .shal .L op st = .ok c st') : ChargedI 1 st c ∧ Spec.Form.mix .SHAL_L = { i := 1 } := by
  refine ⟨?_, rfl⟩
  rw [Spec.pat_SHAL_L] at hp; simp only [Bool.and_eq_true, beq_iff_eq] at hp
  cost_tac

end H8.Props.C20R
