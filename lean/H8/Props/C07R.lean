-- C07, part 3: routing of every valid encoding (207 theorems in C07R/P01 … P13, vocabulary in C07R/Base)
import H8.Props.C07R.P01
import H8.Props.C07R.P02
import H8.Props.C07R.P03
import H8.Props.C07R.P04
import H8.Props.C07R.P05
import H8.Props.C07R.P06
import H8.Props.C07R.P07
import H8.Props.C07R.P08
import H8.Props.C07R.P09
import H8.Props.C07R.P10
import H8.Props.C07R.P11
import H8.Props.C07R.P12
import H8.Props.C07R.P13
