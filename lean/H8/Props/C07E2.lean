/-
  C07 end to end, continued — MULXU / DIVXU (handler theorems in `C02M`): routing ∘ `leafHandler` ∘ handler theorem,
  then one whole step (fetch + exec).  Same statements as the 89 forms of `C07E`; DIVXU for a non-zero divisor.
-/
import H8.Props.C07E
import H8.Props.C02M
namespace H8.Props.C07E
open H8 H8.Spec H8.Props H8.Lemmas

theorem exec_eq_MULXU_B (w0 : BitVec 16) (hp : Form.pat .MULXU_B w0 0 0 0 0 = true) : exec w0 = mulxuB w0 := by
  exact exec_of_leaf w0 _ _ (C07R.route_MULXU_B w0 0 0 0 0 hp) rfl

theorem MULXU_B_exec (w0 : BitVec 16) (st st' : Cpu) (c : BitVec 8) (i : Instr)
    (hp : Form.pat .MULXU_B w0 0 0 0 0 = true) (hi : instrOf .MULXU_B w0 0 0 0 0 = some i)
    (h : exec w0 st = .ok c st') :
    st' = { st with regs := (specRegCcr i st).1, ccr := (specRegCcr i st).2 } := by
  rw [exec_eq_MULXU_B w0 hp] at h
  exact C02M.MULXU_B w0 st st' c i hi h

/-- MULXU_B: one step consumes exactly the one instruction word (PC + 2) and leaves the Spec's registers and CCR -/
theorem MULXU_B_step (st s1 st' : Cpu) (w0 : BitVec 16) (c : BitVec 8) (i : Instr)
    (hf : fetch st = .ok w0 s1) (hp : Form.pat .MULXU_B w0 0 0 0 0 = true) (hi : instrOf .MULXU_B w0 0 0 0 0 = some i)
    (h : step st = .ok c st') :
    st' = { st with regs := (specRegCcr i s1).1, ccr := (specRegCcr i s1).2, opc := st.pc &&& ~~~1#32, pc := st.pc + 2 } := by
  rw [step_eq st s1 w0 hf] at h
  rw [MULXU_B_exec w0 s1 st' c i hp hi h, fetch_state st s1 w0 hf]

theorem exec_eq_MULXU_W (w0 : BitVec 16) (hp : Form.pat .MULXU_W w0 0 0 0 0 = true) : exec w0 = mulxuW w0 := by
  exact exec_of_leaf w0 _ _ (C07R.route_MULXU_W w0 0 0 0 0 hp) rfl

theorem MULXU_W_exec (w0 : BitVec 16) (st st' : Cpu) (c : BitVec 8) (i : Instr)
    (hp : Form.pat .MULXU_W w0 0 0 0 0 = true) (hi : instrOf .MULXU_W w0 0 0 0 0 = some i)
    (h : exec w0 st = .ok c st') :
    st' = { st with regs := (specRegCcr i st).1, ccr := (specRegCcr i st).2 } := by
  rw [exec_eq_MULXU_W w0 hp] at h
  exact C02M.MULXU_W w0 st st' c i hp hi h

/-- MULXU_W: one step consumes exactly the one instruction word (PC + 2) and leaves the Spec's registers and CCR -/
theorem MULXU_W_step (st s1 st' : Cpu) (w0 : BitVec 16) (c : BitVec 8) (i : Instr)
    (hf : fetch st = .ok w0 s1) (hp : Form.pat .MULXU_W w0 0 0 0 0 = true) (hi : instrOf .MULXU_W w0 0 0 0 0 = some i)
    (h : step st = .ok c st') :
    st' = { st with regs := (specRegCcr i s1).1, ccr := (specRegCcr i s1).2, opc := st.pc &&& ~~~1#32, pc := st.pc + 2 } := by
  rw [step_eq st s1 w0 hf] at h
  rw [MULXU_W_exec w0 s1 st' c i hp hi h, fetch_state st s1 w0 hf]

theorem exec_eq_DIVXU_B (w0 : BitVec 16) (hp : Form.pat .DIVXU_B w0 0 0 0 0 = true) : exec w0 = divxuB w0 := by
  exact exec_of_leaf w0 _ _ (C07R.route_DIVXU_B w0 0 0 0 0 hp) rfl

theorem DIVXU_B_exec (w0 : BitVec 16) (st st' : Cpu) (c : BitVec 8) (i : Instr)
    (hp : Form.pat .DIVXU_B w0 0 0 0 0 = true) (hi : instrOf .DIVXU_B w0 0 0 0 0 = some i)
    (h : exec w0 st = .ok c st')
    (hnz : rdB st.regs (nib w0 3) ≠ 0) :
    st' = { st with regs := (specRegCcr i st).1, ccr := (specRegCcr i st).2 } := by
  rw [exec_eq_DIVXU_B w0 hp] at h
  exact C02M.DIVXU_B w0 st st' c i hi h hnz

/-- DIVXU_B: one step consumes exactly the one instruction word (PC + 2) and leaves the Spec's registers and CCR -/
theorem DIVXU_B_step (st s1 st' : Cpu) (w0 : BitVec 16) (c : BitVec 8) (i : Instr)
    (hf : fetch st = .ok w0 s1) (hp : Form.pat .DIVXU_B w0 0 0 0 0 = true) (hi : instrOf .DIVXU_B w0 0 0 0 0 = some i)
    (h : step st = .ok c st')
    (hnz : rdB s1.regs (nib w0 3) ≠ 0) :
    st' = { st with regs := (specRegCcr i s1).1, ccr := (specRegCcr i s1).2, opc := st.pc &&& ~~~1#32, pc := st.pc + 2 } := by
  rw [step_eq st s1 w0 hf] at h
  rw [DIVXU_B_exec w0 s1 st' c i hp hi h hnz, fetch_state st s1 w0 hf]

theorem exec_eq_DIVXU_W (w0 : BitVec 16) (hp : Form.pat .DIVXU_W w0 0 0 0 0 = true) : exec w0 = divxuW w0 := by
  exact exec_of_leaf w0 _ _ (C07R.route_DIVXU_W w0 0 0 0 0 hp) rfl

theorem DIVXU_W_exec (w0 : BitVec 16) (st st' : Cpu) (c : BitVec 8) (i : Instr)
    (hp : Form.pat .DIVXU_W w0 0 0 0 0 = true) (hi : instrOf .DIVXU_W w0 0 0 0 0 = some i)
    (h : exec w0 st = .ok c st')
    (hnz : rdW st.regs (nib w0 3) ≠ 0) :
    st' = { st with regs := (specRegCcr i st).1, ccr := (specRegCcr i st).2 } := by
  rw [exec_eq_DIVXU_W w0 hp] at h
  exact C02M.DIVXU_W w0 st st' c i hi h hnz

/-- DIVXU_W: one step consumes exactly the one instruction word (PC + 2) and leaves the Spec's registers and CCR -/
theorem DIVXU_W_step (st s1 st' : Cpu) (w0 : BitVec 16) (c : BitVec 8) (i : Instr)
    (hf : fetch st = .ok w0 s1) (hp : Form.pat .DIVXU_W w0 0 0 0 0 = true) (hi : instrOf .DIVXU_W w0 0 0 0 0 = some i)
    (h : step st = .ok c st')
    (hnz : rdW s1.regs (nib w0 3) ≠ 0) :
    st' = { st with regs := (specRegCcr i s1).1, ccr := (specRegCcr i s1).2, opc := st.pc &&& ~~~1#32, pc := st.pc + 2 } := by
  rw [step_eq st s1 w0 hf] at h
  rw [DIVXU_W_exec w0 s1 st' c i hp hi h hnz, fetch_state st s1 w0 hf]

end H8.Props.C07E
