/-
  C01, memory forms with address-register update — MOV.B @ERs+,Rd and MOV.B Rs,@-ERd at handler level.
  The byte moved is the byte at the effective address (the register's low 24 bits before the increment; after the
  decrement), the address register changes by exactly the operand size on all 32 bits (its upper byte takes part in
  the arithmetic, not in the address), N and Z from the value, V cleared, nothing else changes.  For every
  encoding of the form — *including* the ones where the data register is part of the address register —, every
  register file, every CCR and every memory content.
-/
import H8.Props.C01M
set_option linter.unusedSimpArgs false
namespace H8.Props.C01N
open H8 H8.Lemmas H8.Props H8.Props.C01M

-- tail of a plain memory MOV: two cost lookups that leave the state alone
set_option hygiene false in
local macro "movcost_subst" : tactic => `(tactic|
  (split at h
   case h_2 => simp at h
   case h_3 => simp at h
   rename_i c1 sa h1; have := costI_state h1; subst this
   split at h
   case h_2 => simp at h
   case h_3 => simp at h
   rename_i c2 sb2 h2; have := calcStateWithAddr_state h2; subst this
   injection h with _ h; subst h))

-- tail of a post-increment / pre-decrement MOV: three cost lookups that leave the state alone
set_option hygiene false in
local macro "movcost3_subst" : tactic => `(tactic|
  (split at h
   case h_2 => simp at h
   case h_3 => simp at h
   rename_i c1 sa h1; have := costI_state h1; subst this
   split at h
   case h_2 => simp at h
   case h_3 => simp at h
   rename_i c2 sb2 h2; have := calcStateWithAddr_state h2; subst this
   split at h
   case h_2 => simp at h
   case h_3 => simp at h
   rename_i c3 sb3 h3; have := calcState_state h3; subst this
   injection h with _ h; subst h))

/-- MOV.B @ERs+,Rd -/
theorem MOV_B_LD_POSTINC (op : BitVec 16) (st st' : Cpu) (c : BitVec 8) (i : Spec.Instr)
    (hp : Spec.Form.pat .MOV_B_LD_POSTINC op 0 0 0 0 = true)
    (hi : Spec.instrOf .MOV_B_LD_POSTINC op 0 0 0 0 = some i) (h : movIncOrDec .B op st = .ok c st') :
    st' = { st with regs := (specRegCcr i st).1, ccr := (specRegCcr i st).2 } := by
  rw [Spec.instrOf_MOV_B_LD_POSTINC] at hi; simp only [Option.some.injEq] at hi; subst hi
  rw [Spec.pat_MOV_B_LD_POSTINC] at hp; simp only [Bool.and_eq_true, beq_iff_eq] at hp
  have hdir : (op &&& 0x0080 == 0) = true := by bv_decide
  have h3 : (nib op 3).ule 7#8 = true := by (simp only [nib]; bv_decide)
  simp only [movIncOrDec, hdir, if_true, readIncErn, readMem, bind_ok, pure_ok, readRnL_ok _ _ h3] at h
  split at h
  case h_2 => simp at h
  case h_3 => simp at h
  rename_i v s1 hb
  split at hb
  case h_2 => simp at hb
  case h_3 => simp at hb
  rename_i v0 s0 hb0
  split at hb0
  case h_2 => simp at hb0
  case h_3 => simp at hb0
  rename_i vb sb hbb
  obtain ⟨e1, e2, _⟩ := busRead_peek _ _ _ _ hbb
  subst e1
  simp only [Res.ok.injEq] at hb0
  obtain ⟨hv0, hs0⟩ := hb0
  subst hv0; subst hs0
  simp only [writeRnL_ok _ _ _ h3, Res.ok.injEq, Sz.bytes] at hb
  obtain ⟨hv, hs1⟩ := hb
  subst hv; subst hs1
  simp only [writeRn, movPccSz, movPcc, writeRnB_nib, bind_ok, pure_ok, changeCcr_ok, writeCcr_zero, iBase, Sz.dataKind,
    Sz.dataCount] at h
  movcost3_subst
  simp only [specRegCcr, Spec.exec, Spec.getReg, Spec.setReg, Spec.movFlags, Spec.eaOf, Spec.eaRegs, getR8_eq, setR8_eq,
    getER_eq, setER_eq, loadBE_one, Spec.Sz.bytes]
  have hidx : (BitVec.setWidth 8 (BitVec.setWidth 3 (BitVec.extractLsb' 4 3 op))) = nib op 3 := by
    simp only [nib]; bv_decide
  rw [hidx]
  rw [addr_toNat] at e2
  rw [← e2]
  generalize sb.regs = r; generalize sb.ccr = cc
  congr 1
  all_goals (
    simp only [nib, rdB, wrB, getEr, setEr, shOf, Spec.nzClearV, Spec.setFlag, changeCcrV, Spec.z4, Spec.zx8, Spec.lo3]
    bv_decide)

/-- MOV.B Rs,@-ERd to any address that is not a special-function register: the register is decremented by one on
    all 32 bits, exactly the byte at the new low 24 bits changes, to the low byte Rs had *before* the decrement -/
theorem MOV_B_ST_PREDEC (op : BitVec 16) (st st' : Cpu) (c : BitVec 8) (i : Spec.Instr)
    (hp : Spec.Form.pat .MOV_B_ST_PREDEC op 0 0 0 0 = true)
    (hi : Spec.instrOf .MOV_B_ST_PREDEC op 0 0 0 0 = some i) (h : movIncOrDec .B op st = .ok c st')
    (hsfr : Spec.isSfr ((getEr st.regs (nib op 3 &&& 7) - 1) &&& ADDRESS_MASK).toNat = false) :
    st' = { st with regs := (specRegCcrBus i st).1, ccr := (specRegCcrBus i st).2.1, bus := (specRegCcrBus i st).2.2 } := by
  rw [Spec.instrOf_MOV_B_ST_PREDEC] at hi; simp only [Option.some.injEq] at hi; subst hi
  rw [Spec.pat_MOV_B_ST_PREDEC] at hp; simp only [Bool.and_eq_true, beq_iff_eq] at hp
  have hdir : (op &&& 0x0080 == 0) = false := by bv_decide
  have h3 : (nib op 3 &&& 7).ule 7#8 = true := by (simp only [nib]; bv_decide)
  simp only [movIncOrDec, hdir, Bool.false_eq_true, if_false, writeDecErn, writeMem, readRn, bind_ok, pure_ok,
    readRnL_ok _ _ h3, readRnB_nib, Sz.bytes] at h
  split at h
  case h_2 => simp at h
  case h_3 => simp at h
  rename_i u s1 hw
  split at hw
  case h_2 => simp at hw
  case h_3 => simp at hw
  rename_i u0 s0 hw0
  have e1 := busWrite_poke _ _ _ _ hw0 hsfr
  subst e1
  simp only [writeRnL_ok _ _ _ h3, Res.ok.injEq, true_and] at hw
  subst hw
  simp only [movPccSz, movPcc, bind_ok, pure_ok, changeCcr_ok, writeCcr_zero, iBase, Sz.dataKind, Sz.dataCount] at h
  movcost3_subst
  simp only [specRegCcrBus, Spec.exec, Spec.getReg, Spec.setReg, Spec.movFlags, Spec.eaOf, Spec.eaRegs, getR8_eq, setR8_eq,
    getER_eq, setER_eq, storeBE_one, Spec.Sz.bytes]
  have hidx : (BitVec.setWidth 8 (BitVec.setWidth 3 (BitVec.extractLsb' 4 3 op))) = nib op 3 &&& 7 := by
    simp only [nib]; bv_decide
  rw [hidx]
  have hone : (BitVec.ofNat 32 1) = 1#32 := rfl
  rw [hone, ← addr_toNat]
  generalize hA : ((getEr st.regs (nib op 3 &&& 7) - 1) &&& ADDRESS_MASK).toNat = A
  generalize st.regs = r; generalize st.ccr = cc; generalize st.bus = bus
  congr 1
  all_goals (
    try (congr 1)
    all_goals (
      simp only [nib, rdB, wrB, getEr, setEr, shOf, Spec.nzClearV, Spec.setFlag, changeCcrV, Spec.z4, Spec.zx8, Spec.lo3]
      bv_decide))

/-! ### word store: two byte stores, high byte first -/

/-- a byte store that succeeded went to a mapped address -/
theorem busWrite_mapped (a : BitVec 32) (v : BitVec 8) (s s' : Cpu) (h : busWrite a v s = .ok () s') :
    Spec.regionOf a.toNat ≠ .none := by
  intro hm
  unfold busWrite at h
  have : s.bus.write a v = .err := by
    unfold Bus.write Gen.write_decode
    unfold Spec.regionOf at hm
    generalize a.toNat = n at hm
    by_cases h1 : n ≤ 0xff
    · simp [h1] at hm
    · by_cases h2 : 0x400000 ≤ n ∧ n ≤ 0x5fffff
      · simp [h1, h2] at hm
      · by_cases h3 : 0xfee000 ≤ n ∧ n ≤ 0xfee0ff
        · simp [h1, h2, h3] at hm
        · by_cases h4 : 0xffbf20 ≤ n ∧ n ≤ 0xffff1f
          · simp [h1, h2, h3, h4] at hm
          · by_cases h5 : 0xffff20 ≤ n ∧ n ≤ 0xffffe9
            · simp [h1, h2, h3, h4, h5] at hm
            · simp [h1, h2, h3, h4, h5]
  simp [this] at h

theorem storeBE_two (b : Bus) (a : BitVec 24) (v : BitVec 32) :
    Spec.storeBE b a 2 v =
      Spec.poke (Spec.poke b ((a.toNat + 0) % 2 ^ 24) ((v >>> 8).setWidth 8)) ((a.toNat + 1) % 2 ^ 24) (v.setWidth 8) := by
  simp [Spec.storeBE, Spec.bytesAt, List.zipIdx, List.range, List.range.loop]

/-- MOV.W Rs,@ERd with neither byte a special-function register: exactly the two bytes at the effective address
    change, to Rs big-endian -/
theorem MOV_W_ST_IND (op : BitVec 16) (st st' : Cpu) (c : BitVec 8) (i : Spec.Instr)
    (hp : Spec.Form.pat .MOV_W_ST_IND op 0 0 0 0 = true)
    (hi : Spec.instrOf .MOV_W_ST_IND op 0 0 0 0 = some i) (h : movErn .W op st = .ok c st')
    (hsfr0 : Spec.isSfr (getEr st.regs (nib op 3 &&& 7) &&& ADDRESS_MASK).toNat = false)
    (hsfr1 : Spec.isSfr ((getEr st.regs (nib op 3 &&& 7) &&& ADDRESS_MASK) + 1).toNat = false) :
    st' = { st with regs := (specRegCcrBus i st).1, ccr := (specRegCcrBus i st).2.1, bus := (specRegCcrBus i st).2.2 } := by
  rw [Spec.instrOf_MOV_W_ST_IND] at hi; simp only [Option.some.injEq] at hi; subst hi
  rw [Spec.pat_MOV_W_ST_IND] at hp; simp only [Bool.and_eq_true, beq_iff_eq] at hp
  have hdir : (op &&& 0x0080 == 0) = false := by bv_decide
  have h3 : (nib op 3 &&& 7).ule 7#8 = true := by (simp only [nib]; bv_decide)
  simp only [movErn, hdir, Bool.false_eq_true, if_false, getAddrErn, writeMem, writeAbs24W, readRn, bind_ok, pure_ok,
    readRnL_ok _ _ h3, readRnW_nib] at h
  split at h
  case h_2 => simp at h
  case h_3 => simp at h
  rename_i u s1 hw
  split at hw
  case h_2 => simp at hw
  case h_3 => simp at hw
  rename_i u0 s0 hw0
  have e0 := busWrite_poke _ _ _ _ hw0 hsfr0
  subst e0
  have hm1 := busWrite_mapped _ _ _ _ hw
  have e1 := busWrite_poke _ _ _ _ hw hsfr1
  subst e1
  simp only [movPccSz, movPcc, bind_ok, pure_ok, changeCcr_ok, writeCcr_zero, iBase, Sz.dataKind, Sz.dataCount] at h
  movcost_subst
  simp only [specRegCcrBus, Spec.exec, Spec.getReg, Spec.setReg, Spec.movFlags, Spec.eaOf, Spec.eaRegs, getR16_eq, setR16_eq,
    getER_eq, storeBE_two, Spec.Sz.bytes]
  have hidx : (BitVec.setWidth 8 (BitVec.setWidth 3 (BitVec.extractLsb' 4 3 op))) = nib op 3 &&& 7 := by
    simp only [nib]; bv_decide
  rw [hidx, ← addr_toNat, ← addr1_toNat _ hm1]
  generalize hA : (getEr st.regs (nib op 3 &&& 7) &&& ADDRESS_MASK).toNat = A
  generalize hB : ((getEr st.regs (nib op 3 &&& 7) &&& ADDRESS_MASK) + 1).toNat = B
  generalize st.regs = r; generalize st.ccr = cc; generalize st.bus = bus
  have hd : nib op 4 = ((op.extractLsb' 0 4).setWidth 4).setWidth 8 := by simp only [nib]; bv_decide
  rw [hd]
  generalize rdW r _ = w
  have e1 : BitVec.setWidth 8 (BitVec.setWidth 16 (BitVec.setWidth 32 w) >>> 8) = BitVec.setWidth 8 (BitVec.setWidth 32 w >>> 8) := by
    bv_decide
  have e2 : BitVec.setWidth 8 (BitVec.setWidth 16 (BitVec.setWidth 32 w)) = BitVec.setWidth 8 (BitVec.setWidth 32 w) := by
    bv_decide
  rw [e1, e2]
  congr 1

end H8.Props.C01N
