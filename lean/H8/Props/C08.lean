/-
  C08 — Effective addresses are formed as the manual defines, modulo 2^24.

  For EVERY register file (all 2^32 values of the base register incl. every upper byte), EVERY
  displacement and EVERY register number, the address the Model's addressing-mode helpers hand to
  the bus is the Spec's 24-bit effective address (zero-extended), and the register written back by
  the ± modes is the full 32-bit register ± size.
-/
import H8.Props.Common
namespace H8.Props.C08
open H8 H8.Lemmas H8.Props

/-- @ERn: low 24 bits of the register -/
theorem ea_ern (regs : Regs) (r : BitVec 3) (st : Cpu) (h : st.regs = regs) :
    getAddrErn (r.setWidth 8) st = .ok ((Spec.eaOf .B regs (.ind r)).setWidth 32) st := by
  have hr : (r.setWidth 8 : BitVec 8).ule 7#8 = true := by bv_decide
  subst h
  simp only [getAddrErn, bind_ok, pure_ok, readRnL_ok _ _ hr, Spec.eaOf, getER_eq, ADDRESS_MASK]
  congr 1
  generalize st.regs = g
  simp only [getEr, shOf]; bv_decide

/-- @(d:16,ERn): sign-extended displacement added modulo 2^24 — never an error, whatever the sum -/
theorem ea_d16 (r : BitVec 3) (d : BitVec 16) (st : Cpu) :
    getAddrDisp16 (r.setWidth 8) d st = .ok ((Spec.eaOf .B st.regs (.disp16 r d)).setWidth 32) st := by
  have hr : (r.setWidth 8 : BitVec 8).ule 7#8 = true := by bv_decide
  simp only [getAddrDisp16, bind_ok, pure_ok, readRnL_ok _ _ hr, Spec.eaOf, getER_eq, ADDRESS_MASK]
  congr 1
  generalize st.regs = g
  simp only [getEr, shOf]; bv_decide

/-- @(d:24,ERn): the 24-bit displacement (top byte of the fetched long = 00) added modulo 2^24 -/
theorem ea_d24 (r : BitVec 3) (d : BitVec 24) (st : Cpu) :
    getAddrDisp24 (r.setWidth 8) (d.setWidth 32) st = .ok ((Spec.eaOf .B st.regs (.disp24 r d)).setWidth 32) st := by
  have hr : (r.setWidth 8 : BitVec 8).ule 7#8 = true := by bv_decide
  simp only [getAddrDisp24, bind_ok, pure_ok, readRnL_ok _ _ hr, Spec.eaOf, getER_eq, ADDRESS_MASK]
  congr 1
  generalize st.regs = g
  simp only [getEr, shOf]; bv_decide

/-- the upper byte of the base register never changes which location is accessed -/
theorem ea_d16_upper_byte (r : BitVec 3) (d : BitVec 16) (regs : Regs) (hi : BitVec 8) :
    Spec.eaOf .B (Spec.setER regs r ((Spec.getER regs r &&& 0x00ffffff#32) ||| (hi.setWidth 32 <<< 24))) (.disp16 r d)
      = Spec.eaOf .B regs (.disp16 r d) := by
  simp only [Spec.eaOf, getER_eq, setER_eq, getEr, setEr, shOf]; bv_decide

/-- @aa:8 = H'FFFF00 + aa, @aa:16 sign-extended -/
theorem ea_aa8 (a : BitVec 8) (regs : Regs) : getAddrAbs8 a = (Spec.eaOf .B regs (.abs8 a)).setWidth 32 := by
  simp only [getAddrAbs8, Spec.eaOf]; bv_decide

theorem ea_aa16 (a : BitVec 16) (regs : Regs) : getAddrAbs16 a = (Spec.eaOf .B regs (.abs16 a)).setWidth 32 := by
  simp only [getAddrAbs16, Spec.eaOf]; bv_decide

/-- @ERn+ : register := full 32-bit register + size; the access is at the old low 24 bits -/
theorem postinc_reg (r : BitVec 3) (regs : Regs) (sz : Spec.Sz) :
    setEr regs (r.setWidth 8) (getEr regs (r.setWidth 8) + BitVec.ofNat 32 sz.bytes)
      = Spec.eaRegs sz regs (.postinc r) := by
  cases sz <;> simp only [Spec.eaRegs, Spec.Sz.bytes, getER_eq, setER_eq]

/-- @-ERn : register := full 32-bit register − size; the access is at the new low 24 bits -/
theorem predec_reg (r : BitVec 3) (regs : Regs) (sz : Spec.Sz) :
    setEr regs (r.setWidth 8) (getEr regs (r.setWidth 8) - BitVec.ofNat 32 sz.bytes)
      = Spec.eaRegs sz regs (.predec r) := by
  cases sz <;> simp only [Spec.eaRegs, Spec.Sz.bytes, getER_eq, setER_eq]

theorem predec_addr (r : BitVec 3) (regs : Regs) (sz : Spec.Sz) :
    ((getEr regs (r.setWidth 8) - BitVec.ofNat 32 sz.bytes) &&& ADDRESS_MASK)
      = (Spec.eaOf sz regs (.predec r)).setWidth 32 := by
  cases sz <;> simp only [Spec.eaOf, Spec.Sz.bytes, getER_eq, ADDRESS_MASK] <;> generalize getEr regs _ = x <;> bv_decide

-- non-vacuity: ER1 = 0x12000010, d = -0x20 wraps to H'FFFFF0
example : Spec.eaOf .B (Spec.setER 0 1 0x12000010) (.disp16 1 0xffe0) = 0xfffff0#24 := by decide

end H8.Props.C08
