/-
  C04 at handler level — the 18 register forms of the bit-manipulation instructions (BSET/BCLR/BNOT/BTST Rn and
  #imm, BST/BIST, BLD/BILD, BAND/BIAND, BOR/BIOR, BXOR/BIXOR on a register operand): for every encoding, every
  register file (the bit-number register may hold any of 0–255: its low three bits count) and every CCR, the
  handler leaves exactly the register file and CCR the Spec prescribes — only the addressed bit of the operand
  register, or only C (only Z for BTST), changes.
-/
import H8.Props.Common
import H8.Lemmas.Cost
set_option linter.unusedSimpArgs false
namespace H8.Props.C04H
open H8 H8.Lemmas H8.Props

theorem writeCcr_val (bit : Nat) (v : BitVec 8) (s : Cpu) (h : v = 0 ∨ v = 1) :
    writeCcr bit v s = .ok () { s with ccr := changeCcrV s.ccr bit (v == 1) } := by
  rcases h with h | h <;> subst h
  · rw [writeCcr_zero]; rfl
  · rw [writeCcr_one]; rfl

theorem bacc_value (o : BAcc) (v imm ccr : BitVec 8) :
    BAcc.ap o v imm ((ccr >>> 0) &&& 1) = 0 ∨ BAcc.ap o v imm ((ccr >>> 0) &&& 1) = 1 := by
  cases o <;> simp only [BAcc.ap] <;> bv_decide

set_option hygiene false in
macro "bit_handler" il:ident pl:ident : tactic => `(tactic|
  (rw [$il:ident] at hi; simp only [Option.some.injEq] at hi; subst hi
   rw [$pl:ident] at hp; simp only [Bool.and_eq_true, beq_iff_eq] at hp
   simp only [bmodRnRn, bmodRnImm, btstRnRn, btstImmRn, btstSet, bstRn, baccRn, bind_ok, pure_ok, get_ok, readRnB_nib, writeRnB_nib,
     changeCcr_ok, readCcr_ok] at h
   try (rw [writeCcr_val _ _ _ (bacc_value _ _ _ _)] at h; simp only [bind_ok] at h)
   have := costI_state h; subst this
   simp only [specRegCcr, Spec.exec, Spec.getReg, Spec.setReg, getR8_eq, setR8_eq]
   generalize st.regs = r; generalize st.ccr = cc
   congr 1
   all_goals (
     simp only [Spec.bitK, BMod.ap, BAcc.ap, bstVal, nib, rdB, wrB, getEr, setEr, shOf, Spec.setFlag, Spec.flag, changeCcrV, Spec.z4,
       Spec.lo3]
     bv_decide)))

theorem BSET_RR (op : BitVec 16) (st st' : Cpu) (c : BitVec 8) (i : Spec.Instr)
    (hp : Spec.Form.pat .BSET_RR op 0 0 0 0 = true)
    (hi : Spec.instrOf .BSET_RR op 0 0 0 0 = some i) (h : bmodRnRn .set op st = .ok c st') :
    st' = { st with regs := (specRegCcr i st).1, ccr := (specRegCcr i st).2 } := by
  bit_handler Spec.instrOf_BSET_RR Spec.pat_BSET_RR

theorem BNOT_RR (op : BitVec 16) (st st' : Cpu) (c : BitVec 8) (i : Spec.Instr)
    (hp : Spec.Form.pat .BNOT_RR op 0 0 0 0 = true)
    (hi : Spec.instrOf .BNOT_RR op 0 0 0 0 = some i) (h : bmodRnRn .not_ op st = .ok c st') :
    st' = { st with regs := (specRegCcr i st).1, ccr := (specRegCcr i st).2 } := by
  bit_handler Spec.instrOf_BNOT_RR Spec.pat_BNOT_RR

theorem BCLR_RR (op : BitVec 16) (st st' : Cpu) (c : BitVec 8) (i : Spec.Instr)
    (hp : Spec.Form.pat .BCLR_RR op 0 0 0 0 = true)
    (hi : Spec.instrOf .BCLR_RR op 0 0 0 0 = some i) (h : bmodRnRn .clr op st = .ok c st') :
    st' = { st with regs := (specRegCcr i st).1, ccr := (specRegCcr i st).2 } := by
  bit_handler Spec.instrOf_BCLR_RR Spec.pat_BCLR_RR

theorem BTST_RR (op : BitVec 16) (st st' : Cpu) (c : BitVec 8) (i : Spec.Instr)
    (hp : Spec.Form.pat .BTST_RR op 0 0 0 0 = true)
    (hi : Spec.instrOf .BTST_RR op 0 0 0 0 = some i) (h : btstRnRn op st = .ok c st') :
    st' = { st with regs := (specRegCcr i st).1, ccr := (specRegCcr i st).2 } := by
  bit_handler Spec.instrOf_BTST_RR Spec.pat_BTST_RR

theorem BST_R (op : BitVec 16) (st st' : Cpu) (c : BitVec 8) (i : Spec.Instr)
    (hp : Spec.Form.pat .BST_R op 0 0 0 0 = true)
    (hi : Spec.instrOf .BST_R op 0 0 0 0 = some i) (h : bstRn false op st = .ok c st') :
    st' = { st with regs := (specRegCcr i st).1, ccr := (specRegCcr i st).2 } := by
  bit_handler Spec.instrOf_BST_R Spec.pat_BST_R

theorem BIST_R (op : BitVec 16) (st st' : Cpu) (c : BitVec 8) (i : Spec.Instr)
    (hp : Spec.Form.pat .BIST_R op 0 0 0 0 = true)
    (hi : Spec.instrOf .BIST_R op 0 0 0 0 = some i) (h : bstRn true op st = .ok c st') :
    st' = { st with regs := (specRegCcr i st).1, ccr := (specRegCcr i st).2 } := by
  bit_handler Spec.instrOf_BIST_R Spec.pat_BIST_R

theorem BSET_I (op : BitVec 16) (st st' : Cpu) (c : BitVec 8) (i : Spec.Instr)
    (hp : Spec.Form.pat .BSET_I op 0 0 0 0 = true)
    (hi : Spec.instrOf .BSET_I op 0 0 0 0 = some i) (h : bmodRnImm .set op st = .ok c st') :
    st' = { st with regs := (specRegCcr i st).1, ccr := (specRegCcr i st).2 } := by
  bit_handler Spec.instrOf_BSET_I Spec.pat_BSET_I

theorem BNOT_I (op : BitVec 16) (st st' : Cpu) (c : BitVec 8) (i : Spec.Instr)
    (hp : Spec.Form.pat .BNOT_I op 0 0 0 0 = true)
    (hi : Spec.instrOf .BNOT_I op 0 0 0 0 = some i) (h : bmodRnImm .not_ op st = .ok c st') :
    st' = { st with regs := (specRegCcr i st).1, ccr := (specRegCcr i st).2 } := by
  bit_handler Spec.instrOf_BNOT_I Spec.pat_BNOT_I

theorem BCLR_I (op : BitVec 16) (st st' : Cpu) (c : BitVec 8) (i : Spec.Instr)
    (hp : Spec.Form.pat .BCLR_I op 0 0 0 0 = true)
    (hi : Spec.instrOf .BCLR_I op 0 0 0 0 = some i) (h : bmodRnImm .clr op st = .ok c st') :
    st' = { st with regs := (specRegCcr i st).1, ccr := (specRegCcr i st).2 } := by
  bit_handler Spec.instrOf_BCLR_I Spec.pat_BCLR_I

theorem BTST_I (op : BitVec 16) (st st' : Cpu) (c : BitVec 8) (i : Spec.Instr)
    (hp : Spec.Form.pat .BTST_I op 0 0 0 0 = true)
    (hi : Spec.instrOf .BTST_I op 0 0 0 0 = some i) (h : btstImmRn op st = .ok c st') :
    st' = { st with regs := (specRegCcr i st).1, ccr := (specRegCcr i st).2 } := by
  bit_handler Spec.instrOf_BTST_I Spec.pat_BTST_I

theorem BOR_R (op : BitVec 16) (st st' : Cpu) (c : BitVec 8) (i : Spec.Instr)
    (hp : Spec.Form.pat .BOR_R op 0 0 0 0 = true)
    (hi : Spec.instrOf .BOR_R op 0 0 0 0 = some i) (h : baccRn .or op st = .ok c st') :
    st' = { st with regs := (specRegCcr i st).1, ccr := (specRegCcr i st).2 } := by
  bit_handler Spec.instrOf_BOR_R Spec.pat_BOR_R

theorem BIOR_R (op : BitVec 16) (st st' : Cpu) (c : BitVec 8) (i : Spec.Instr)
    (hp : Spec.Form.pat .BIOR_R op 0 0 0 0 = true)
    (hi : Spec.instrOf .BIOR_R op 0 0 0 0 = some i) (h : baccRn .ior op st = .ok c st') :
    st' = { st with regs := (specRegCcr i st).1, ccr := (specRegCcr i st).2 } := by
  bit_handler Spec.instrOf_BIOR_R Spec.pat_BIOR_R

theorem BXOR_R (op : BitVec 16) (st st' : Cpu) (c : BitVec 8) (i : Spec.Instr)
    (hp : Spec.Form.pat .BXOR_R op 0 0 0 0 = true)
    (hi : Spec.instrOf .BXOR_R op 0 0 0 0 = some i) (h : baccRn .xor op st = .ok c st') :
    st' = { st with regs := (specRegCcr i st).1, ccr := (specRegCcr i st).2 } := by
  bit_handler Spec.instrOf_BXOR_R Spec.pat_BXOR_R

theorem BIXOR_R (op : BitVec 16) (st st' : Cpu) (c : BitVec 8) (i : Spec.Instr)
    (hp : Spec.Form.pat .BIXOR_R op 0 0 0 0 = true)
    (hi : Spec.instrOf .BIXOR_R op 0 0 0 0 = some i) (h : baccRn .ixor op st = .ok c st') :
    st' = { st with regs := (specRegCcr i st).1, ccr := (specRegCcr i st).2 } := by
  bit_handler Spec.instrOf_BIXOR_R Spec.pat_BIXOR_R

theorem BAND_R (op : BitVec 16) (st st' : Cpu) (c : BitVec 8) (i : Spec.Instr)
    (hp : Spec.Form.pat .BAND_R op 0 0 0 0 = true)
    (hi : Spec.instrOf .BAND_R op 0 0 0 0 = some i) (h : baccRn .and op st = .ok c st') :
    st' = { st with regs := (specRegCcr i st).1, ccr := (specRegCcr i st).2 } := by
  bit_handler Spec.instrOf_BAND_R Spec.pat_BAND_R

theorem BIAND_R (op : BitVec 16) (st st' : Cpu) (c : BitVec 8) (i : Spec.Instr)
    (hp : Spec.Form.pat .BIAND_R op 0 0 0 0 = true)
    (hi : Spec.instrOf .BIAND_R op 0 0 0 0 = some i) (h : baccRn .iand op st = .ok c st') :
    st' = { st with regs := (specRegCcr i st).1, ccr := (specRegCcr i st).2 } := by
  bit_handler Spec.instrOf_BIAND_R Spec.pat_BIAND_R

theorem BLD_R (op : BitVec 16) (st st' : Cpu) (c : BitVec 8) (i : Spec.Instr)
    (hp : Spec.Form.pat .BLD_R op 0 0 0 0 = true)
    (hi : Spec.instrOf .BLD_R op 0 0 0 0 = some i) (h : baccRn .ld op st = .ok c st') :
    st' = { st with regs := (specRegCcr i st).1, ccr := (specRegCcr i st).2 } := by
  bit_handler Spec.instrOf_BLD_R Spec.pat_BLD_R

theorem BILD_R (op : BitVec 16) (st st' : Cpu) (c : BitVec 8) (i : Spec.Instr)
    (hp : Spec.Form.pat .BILD_R op 0 0 0 0 = true)
    (hi : Spec.instrOf .BILD_R op 0 0 0 0 = some i) (h : baccRn .ild op st = .ok c st') :
    st' = { st with regs := (specRegCcr i st).1, ccr := (specRegCcr i st).2 } := by
  bit_handler Spec.instrOf_BILD_R Spec.pat_BILD_R

end H8.Props.C04H
