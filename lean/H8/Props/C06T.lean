/-
  C06 at handler level, TRAPA — `TRAPA #n` (n = 1, 2, 3: vectors 9–11; #0 is the MES system-call trap of C14)
  followed by RTE restores the interrupted context exactly.

  `trapa_entry`: SP − 4 on all 32 bits, I set and no other flag touched, the frame CCR ‖ PC24 readable at the new SP,
  PC := low 24 bits of the long at H'20 + 4n (read after the push), nothing else but the four frame bytes changes.
  `trapa_rte_roundtrip`: if `TRAPA #n` and then `RTE` complete, every register (SP on all 32 bits), all eight CCR bits
  and PC are what they were, and memory differs at most in the frame — for every register file, CCR, 24-bit PC and
  memory content with the frame in plain storage.
-/
import H8.Props.C05H
set_option linter.unusedSimpArgs false
namespace H8.Props.C06T
open H8 H8.Lemmas H8.Props H8.Props.C06H H8.Props.C05H

/-- entry alone -/
theorem trapa_entry (op : BitVec 16) (st st' : Cpu) (c : BitVec 8)
    (h : trapa op st = .ok c st') (hn : (nib op 3 == 0) = false)
    (h0 : Spec.plain (frameAddr st.regs).toNat) (h1 : Spec.plain (frameAddr st.regs + 1).toNat)
    (h2 : Spec.plain (frameAddr st.regs + 2).toNat) (h3 : Spec.plain (frameAddr st.regs + 3).toNat) :
    st'.regs = setEr st.regs 7 (getEr st.regs 7 - 4) ∧
    st'.ccr = changeCcrV st.ccr 7 true ∧
    readAbs24L (frameAddr st.regs) st' = .ok ((st.ccr.setWidth 32 <<< 24) ||| st.pc) st' ∧
    st' = { st with regs := st'.regs, ccr := st'.ccr, pc := st'.pc, bus := st'.bus } ∧
    (∀ x, x ≠ frameAddr st.regs → x ≠ frameAddr st.regs + 1 → x ≠ frameAddr st.regs + 2 →
        x ≠ frameAddr st.regs + 3 → st'.bus.read x = st.bus.read x) := by
  simp only [trapa, bind_ok, readRnL_ok _ _ seven_ok, hn, Bool.false_eq_true, if_false, get_ok] at h
  -- the push
  split at h
  case h_2 => simp at h
  case h_3 => simp at h
  rename_i u s1 hpush
  obtain ⟨hs1, hfr, hoth⟩ := push_long st s1 _ hpush h0 h1 h2 h3
  -- the vector read
  split at h
  case h_2 => simp at h
  case h_3 => simp at h
  rename_i dest s2 hvec
  obtain ⟨e2, _⟩ := readAbs24L_ok _ _ _ _ hvec
  subst e2
  simp only [modify_ok, writeCcr_one, pure_ok] at h
  -- the four cost lookups leave the state alone
  split at h
  case h_2 => simp at h
  case h_3 => simp at h
  rename_i c1 sa hc1
  have := costI_state hc1; subst this
  split at h
  case h_2 => simp at h
  case h_3 => simp at h
  rename_i c2 sb hc2
  have := calcStateWithAddr_state hc2; subst this
  split at h
  case h_2 => simp at h
  case h_3 => simp at h
  rename_i c3 sc hc3
  have := calcStateWithAddr_state hc3; subst this
  split at h
  case h_2 => simp at h
  case h_3 => simp at h
  rename_i c4 sd hc4
  have := calcState_state hc4; subst this
  simp only [Res.ok.injEq] at h
  obtain ⟨_, hst⟩ := h
  subst hst
  refine ⟨by rw [hs1], by rw [hs1], ?_, ?_, ?_⟩
  · exact (readAbs24L_ok _ _ _ _ hfr).2 _ (by simp)
  · rw [hs1]
  · intro x x0 x1 x2 x3
    simpa using hoth x x0 x1 x2 x3

/-- **TRAPA #n, then RTE: the context is restored exactly** -/
theorem trapa_rte_roundtrip (op : BitVec 16) (st st2 : Cpu) (c : BitVec 8)
    (h : (trapa op >>= fun _ => rte) st = .ok c st2) (hn : (nib op 3 == 0) = false)
    (hpc : BitVec.ule st.pc 0xffffff#32 = true)
    (h0 : Spec.plain (frameAddr st.regs).toNat) (h1 : Spec.plain (frameAddr st.regs + 1).toNat)
    (h2 : Spec.plain (frameAddr st.regs + 2).toNat) (h3 : Spec.plain (frameAddr st.regs + 3).toNat) :
    st2 = { st with bus := st2.bus } ∧
    (∀ x, x ≠ frameAddr st.regs → x ≠ frameAddr st.regs + 1 → x ≠ frameAddr st.regs + 2 →
        x ≠ frameAddr st.regs + 3 → st2.bus.read x = st.bus.read x) := by
  rw [bind_ok] at h
  split at h
  case h_2 => simp at h
  case h_3 => simp at h
  rename_i c0 s3 hent
  obtain ⟨hregs, hccr, hfr, hshape, hother⟩ := trapa_entry op st s3 c0 hent hn h0 h1 h2 h3
  have hsp : getEr s3.regs 7 = getEr st.regs 7 - 4 := by rw [hregs]; exact sp_after_push _
  simp only [frameAddr] at hfr
  simp only [rte, bind_ok, readIncErn, readMem, readRnL_ok _ _ seven_ok, hsp, hfr, writeRnL_ok _ _ _ seven_ok, pure_ok,
    modify_ok, Sz.bytes] at h
  split at h
  case h_2 => simp at h
  case h_3 => simp at h
  rename_i c1 sa hc1
  have := costI_state hc1; subst this
  split at h
  case h_2 => simp at h
  case h_3 => simp at h
  rename_i c2 sb hc2
  have := calcStateWithAddr_state hc2; subst this
  split at h
  case h_2 => simp at h
  case h_3 => simp at h
  rename_i c3 sc hc3
  have := calcState_state hc3; subst this
  simp only [Res.ok.injEq] at h
  obtain ⟨_, hst2⟩ := h
  subst hst2
  obtain ⟨hf1, hf2⟩ := C06.frame_split st.ccr st.pc hpc
  refine ⟨?_, ?_⟩
  · rw [hshape]
    simp only [hregs, hf1, hf2]
    congr 1
    generalize st.regs = r
    simp only [getEr, setEr, shOf]
    bv_decide
  · intro x x0 x1 x2 x3
    simpa using hother x x0 x1 x2 x3

-- non-vacuity: TRAPA #2 has a non-zero vector field
example : (nib 0x5720#16 3 == 0) = false := by decide

end H8.Props.C06T
