/-
  C11 — ELF loading places every segment byte and relocates the GOT exactly once.

  Theorems about the loops of `Model/Elf.lean` (`copyBytes`, `loadSegments`, `relocGot`), for every file,
  every segment list and every GOT size — no bound on sizes.  The model's DRAM store *is* the 2 MiB DRAM
  array, so "nothing outside DRAM is modified" is, in the model, the statement that every write index is
  < DRAM_SIZE (`*_in_dram`); that the real loader touches no other array is checked by the harness
  (`other=0`).  The parsers (header / program header / section header / names) are tied to the code by
  correspondence only.
-/
import H8.Model.Elf
namespace H8.Props.C11
open H8 H8.Elf

/-! ### single writes -/

theorem pokeDram_some {d d' : Mem} {i v : Nat} (h : pokeDram d i v = some d') :
    i < DRAM_SIZE ∧ d' = d.set i (BitVec.ofNat 8 v) := by
  unfold pokeDram at h
  split at h
  · exact ⟨by assumption, by simpa using h.symm⟩
  · simp at h

theorem pokeDram_get {d d' : Mem} {i v : Nat} (h : pokeDram d i v = some d') (j : Nat) :
    d'.get j = if i = j then BitVec.ofNat 8 v else d.get j := by
  rw [(pokeDram_some h).2, Mem.get_set]

/-! ### copying a segment -/

/-- `copyBytes` places byte `src+k` of the file at DRAM index `dst+k` for every k < n, changes no other
    cell, and every index it writes lies inside DRAM. -/
theorem copyBytes_spec (f : Bytes) : ∀ (n src dst : Nat) (d d' : Mem), copyBytes f src dst n d = some d' →
    (∀ k, k < n → dst + k < DRAM_SIZE ∧ u8At f (src + k) = some (d'.get (dst + k)).toNat) ∧
    (∀ j, (j < dst ∨ dst + n ≤ j) → d'.get j = d.get j) := by
  intro n
  induction n with
  | zero =>
    intro src dst d d' h
    simp [copyBytes] at h
    subst h
    exact ⟨by intro k hk; omega, by intro j _; rfl⟩
  | succ n ih =>
    intro src dst d d' h
    simp only [copyBytes, Option.bind_eq_bind, Option.bind_eq_some_iff] at h
    obtain ⟨b, hb, d1, hd1, hrest⟩ := h
    obtain ⟨ihA, ihB⟩ := ih (src + 1) (dst + 1) d1 d' hrest
    have hb256 : b < 256 := by
      unfold u8At at hb
      split at hb
      · have := (Option.some.inj hb); rw [← this]; exact UInt8.toNat_lt _
      · simp at hb
    refine ⟨?_, ?_⟩
    · intro k hk
      cases k with
      | zero =>
        have h1 : d'.get dst = d1.get dst := ihB dst (Or.inl (by omega))
        have h2 := pokeDram_get hd1 dst
        simp only [if_true] at h2
        refine ⟨(pokeDram_some hd1).1, ?_⟩
        simp only [Nat.add_zero]
        rw [hb, h1, h2]
        simp [BitVec.toNat_ofNat]
        omega
      | succ k =>
        have := ihA k (by omega)
        have e1 : dst + (k + 1) = dst + 1 + k := by omega
        have e2 : src + (k + 1) = src + 1 + k := by omega
        rw [e1, e2]
        exact this
    · intro j hj
      have h1 : d'.get j = d1.get j := ihB j (by omega)
      have h2 := pokeDram_get hd1 j
      have : dst ≠ j := by omega
      simp only [this, if_false] at h2
      rw [h1, h2]

/-- no panic: the copy succeeds whenever the file and DRAM are large enough -/
theorem copyBytes_total (f : Bytes) : ∀ (n src dst : Nat) (d : Mem),
    src + n ≤ f.size → dst + n ≤ DRAM_SIZE → ∃ d', copyBytes f src dst n d = some d' := by
  intro n
  induction n with
  | zero => intro src dst d _ _; exact ⟨d, rfl⟩
  | succ n ih =>
    intro src dst d hs hd
    have hlt : src < f.size := by omega
    obtain ⟨d', hd'⟩ := ih (src + 1) (dst + 1) (d.set dst (BitVec.ofNat 8 (f[src]'hlt).toNat)) (by omega) (by omega)
    refine ⟨d', ?_⟩
    simp only [copyBytes, Option.bind_eq_bind]
    have h1 : u8At f src = some (f[src]'hlt).toNat := by simp [u8At, hlt]
    have h2 : ∀ v, pokeDram d dst v = some (d.set dst (BitVec.ofNat 8 v)) := by
      intro v; simp [pokeDram]; omega
    rw [h1]
    simp only [Option.bind_some, h2]
    exact hd'

/-! ### the PT_LOAD loop -/

/-- the DRAM index range a loadable program header's file contents occupy -/
def inSeg (ph : Ph) (j : Nat) : Prop := ph.ty = 1 ∧ OFF0 + ph.vaddr ≤ j ∧ j < OFF0 + ph.vaddr + ph.filesz

/-- the loadable segments' file contents do not overlap (the generator's / a linker's guarantee) -/
def Disjoint : List Ph → Prop
  | [] => True
  | ph :: rest => (∀ q, q ∈ rest → ∀ j, inSeg ph j → ¬ inSeg q j) ∧ Disjoint rest

theorem step_eq (f : Bytes) (ph : Ph) (pht : List Ph) (d : Mem) :
    loadSegments f (ph :: pht) d =
      ((if ph.ty == 1 then
          (if ph.off + ph.filesz > f.size ∨ OFF0 + ph.vaddr + ph.filesz > DRAM_SIZE then none
           else copyBytes f ph.off (OFF0 + ph.vaddr) ph.filesz d)
        else some d).bind fun d1 => loadSegments f pht d1) := by
  simp [loadSegments, List.foldlM_cons, Option.bind_eq_bind]

/-- bytes outside every loadable segment's file contents are unchanged (.bss, gaps, everything else in
    DRAM: zero in a fresh machine) -/
theorem loadSegments_frame (f : Bytes) : ∀ (pht : List Ph) (d d' : Mem), loadSegments f pht d = some d' →
    ∀ j, (∀ ph, ph ∈ pht → ¬ inSeg ph j) → d'.get j = d.get j := by
  intro pht
  induction pht with
  | nil => intro d d' h j _; simp [loadSegments] at h; subst h; rfl
  | cons ph rest ih =>
    intro d d' h j hj
    rw [step_eq, Option.bind_eq_some_iff] at h
    obtain ⟨d1, hd1, hrest⟩ := h
    have h2 := ih d1 d' hrest j (fun q hq => hj q (List.mem_cons_of_mem _ hq))
    rw [h2]
    by_cases hty : ph.ty = 1
    · simp only [hty, beq_self_eq_true, if_true] at hd1
      split at hd1
      · simp at hd1
      · have := (copyBytes_spec f _ _ _ _ _ hd1).2 j
        apply this
        have hn := hj ph (List.mem_cons_self ..)
        unfold inSeg at hn
        omega
    · have : (ph.ty == 1) = false := by simpa using hty
      simp only [this] at hd1
      simp at hd1
      rw [hd1]

/-- **every byte of the file contents of every PT_LOAD segment is present at load base + p_vaddr**, and
    every written index is inside DRAM -/
theorem loadSegments_places (f : Bytes) : ∀ (pht : List Ph) (d d' : Mem), Disjoint pht →
    loadSegments f pht d = some d' →
    ∀ ph, ph ∈ pht → ph.ty = 1 → ∀ k, k < ph.filesz →
      OFF0 + ph.vaddr + k < DRAM_SIZE ∧ u8At f (ph.off + k) = some (d'.get (OFF0 + ph.vaddr + k)).toNat := by
  intro pht
  induction pht with
  | nil => intro d d' _ _ ph hph; cases hph
  | cons p rest ih =>
    intro d d' hdis h ph hph hty k hk
    rw [step_eq, Option.bind_eq_some_iff] at h
    obtain ⟨d1, hd1, hrest⟩ := h
    rcases List.mem_cons.mp hph with heq | hin
    · subst heq
      simp only [hty, beq_self_eq_true, if_true] at hd1
      split at hd1
      · simp at hd1
      · obtain ⟨hA, _⟩ := copyBytes_spec f _ _ _ _ _ hd1
        obtain ⟨hlt, hbyte⟩ := hA k hk
        refine ⟨hlt, ?_⟩
        -- the rest of the loop leaves this cell alone: it lies in no later segment
        have hfr := loadSegments_frame f rest d1 d' hrest (OFF0 + ph.vaddr + k) (by
          intro q hq
          exact hdis.1 q hq _ ⟨hty, by omega, by omega⟩)
        rw [hfr]; exact hbyte
    · exact ih d1 d' hdis.2 hrest ph hin hty k hk

/-! ### 32-bit big-endian cells -/

theorem writeBE32_spec {d d' : Mem} {i v : Nat} (h : writeBE32 d i v = some d') (hv : v < 2 ^ 32) :
    i + 3 < DRAM_SIZE ∧ readBE32 d' i = some v ∧ (∀ j, (j < i ∨ i + 4 ≤ j) → d'.get j = d.get j) := by
  simp only [writeBE32, Option.bind_eq_bind, Option.bind_eq_some_iff] at h
  obtain ⟨d1, h1, d2, h2, d3, h3, h4⟩ := h
  have b4 := (pokeDram_some h4).1
  have g := fun j => pokeDram_get h4 j
  have g3 := fun j => pokeDram_get h3 j
  have g2 := fun j => pokeDram_get h2 j
  have g1 := fun j => pokeDram_get h1 j
  refine ⟨b4, ?_, ?_⟩
  · have e0 : d'.get i = BitVec.ofNat 8 (v / 16777216 % 256) := by
      rw [g, g3, g2, g1]; simp <;> omega
    have e1 : d'.get (i + 1) = BitVec.ofNat 8 (v / 65536 % 256) := by
      rw [g, g3, g2]; simp <;> omega
    have e2 : d'.get (i + 2) = BitVec.ofNat 8 (v / 256 % 256) := by
      rw [g, g3]; simp <;> omega
    have e3 : d'.get (i + 3) = BitVec.ofNat 8 (v % 256) := by
      rw [g]; simp
    unfold readBE32
    rw [if_pos b4, e0, e1, e2, e3]
    simp only [BitVec.toNat_ofNat]
    congr 1
    omega
  · intro j hj
    rw [g, g3, g2, g1]
    have a1 : i ≠ j := by omega
    have a2 : i + 1 ≠ j := by omega
    have a3 : i + 2 ≠ j := by omega
    have a4 : i + 3 ≠ j := by omega
    simp [a1, a2, a3, a4]

theorem readBE32_congr {d d' : Mem} {i : Nat} (h : ∀ j, i ≤ j → j < i + 4 → d'.get j = d.get j) :
    readBE32 d' i = readBE32 d i := by
  unfold readBE32
  rw [h i (by omega) (by omega), h (i + 1) (by omega) (by omega), h (i + 2) (by omega) (by omega),
    h (i + 3) (by omega) (by omega)]

theorem readBE32_lt {d : Mem} {i v : Nat} (h : readBE32 d i = some v) : v < 2 ^ 32 := by
  unfold readBE32 at h
  split at h
  · have := Option.some.inj h
    have a := (d.get i).isLt; have b := (d.get (i + 1)).isLt
    have c := (d.get (i + 2)).isLt; have e := (d.get (i + 3)).isLt
    omega
  · simp at h

/-! ### the GOT loop -/

/-- `relocGot` over entries i … i+n-1 of a GOT at section address `addr` (no 32-bit wrap of the entry
    addresses): **every entry equals its previous value plus the load base, modulo 2^32 — once** —
    and **no byte outside the GOT range is relocated**. -/
theorem relocGot_spec (off0 addr : Nat) : ∀ (n i : Nat) (d d' : Mem),
    addr + 4 * (i + n) ≤ 2 ^ 32 → relocGot off0 addr n i d = some d' →
    (∀ k, i ≤ k → k < i + n → ∃ v, readBE32 d (off0 + addr + 4 * k) = some v ∧
        readBE32 d' (off0 + addr + 4 * k) = some ((v + PROGRAM_START) % 2 ^ 32)) ∧
    (∀ j, (j < off0 + addr + 4 * i ∨ off0 + addr + 4 * (i + n) ≤ j) → d'.get j = d.get j) := by
  intro n
  induction n with
  | zero =>
    intro i d d' _ h
    simp [relocGot] at h; subst h
    exact ⟨by intro k h1 h2; omega, by intro j _; rfl⟩
  | succ n ih =>
    intro i d d' hw h
    simp only [relocGot, Option.bind_eq_bind, Option.bind_eq_some_iff] at h
    obtain ⟨v, hv, d1, hd1, hrest⟩ := h
    have hmod : (addr + 4 * i) % 2 ^ 32 = addr + 4 * i := Nat.mod_eq_of_lt (by omega)
    rw [hmod] at hv hd1
    have hvlt := readBE32_lt hv
    obtain ⟨_, hrd, hfr⟩ := writeBE32_spec hd1 (Nat.mod_lt _ (by decide))
    obtain ⟨ihA, ihB⟩ := ih (i + 1) d1 d' (by omega) hrest
    refine ⟨?_, ?_⟩
    · intro k hk1 hk2
      by_cases hki : k = i
      · subst hki
        refine ⟨v, by rw [Nat.add_assoc]; exact hv, ?_⟩
        have : readBE32 d' (off0 + addr + 4 * k) = readBE32 d1 (off0 + addr + 4 * k) :=
          readBE32_congr (fun j h1 h2 => ihB j (Or.inl (by omega)))
        rw [this, Nat.add_assoc]; exact hrd
      · obtain ⟨w, hw1, hw2⟩ := ihA k (by omega) (by omega)
        refine ⟨w, ?_, hw2⟩
        rw [← hw1]
        exact (readBE32_congr (fun j h1 h2 => hfr j (by omega))).symm
    · intro j hj
      rw [ihB j (by omega), hfr j (by omega)]

/-- composition for a GOT that lies inside one segment's file contents: after the PT_LOAD loop and the
    GOT loop, entry k holds (the 32-bit big-endian value at the entry's place **in the file**) + load base. -/
theorem got_entry_relocated_once (f : Bytes) (pht : List Ph) (d0 d1 d2 : Mem) (s : Ph) (addr n k : Nat)
    (hdis : Disjoint pht) (hload : loadSegments f pht d0 = some d1)
    (hs : s ∈ pht) (hty : s.ty = 1) (hlo : s.vaddr ≤ addr) (hhi : addr + 4 * n ≤ s.vaddr + s.filesz)
    (hw : addr + 4 * n ≤ 2 ^ 32) (hrel : relocGot OFF0 addr n 0 d1 = some d2) (hk : k < n) :
    ∃ v, be32 f (s.off + (addr - s.vaddr) + 4 * k) = some v ∧
      readBE32 d2 (OFF0 + addr + 4 * k) = some ((v + PROGRAM_START) % 2 ^ 32) := by
  obtain ⟨hA, _⟩ := relocGot_spec OFF0 addr n 0 d1 d2 (by omega) hrel
  obtain ⟨v, hv1, hv2⟩ := hA k (by omega) (by omega)
  refine ⟨v, ?_, hv2⟩
  have hp := loadSegments_places f pht d0 d1 hdis hload s hs hty
  have p0 := hp (addr - s.vaddr + 4 * k) (by omega)
  have p1 := hp (addr - s.vaddr + 4 * k + 1) (by omega)
  have p2 := hp (addr - s.vaddr + 4 * k + 2) (by omega)
  have p3 := hp (addr - s.vaddr + 4 * k + 3) (by omega)
  have e0 : OFF0 + s.vaddr + (addr - s.vaddr + 4 * k) = OFF0 + addr + 4 * k := by omega
  have e1 : OFF0 + s.vaddr + (addr - s.vaddr + 4 * k + 1) = OFF0 + addr + 4 * k + 1 := by omega
  have e2 : OFF0 + s.vaddr + (addr - s.vaddr + 4 * k + 2) = OFF0 + addr + 4 * k + 2 := by omega
  have e3 : OFF0 + s.vaddr + (addr - s.vaddr + 4 * k + 3) = OFF0 + addr + 4 * k + 3 := by omega
  rw [e0] at p0; rw [e1] at p1; rw [e2] at p2; rw [e3] at p3
  have f0 : s.off + (addr - s.vaddr + 4 * k) = s.off + (addr - s.vaddr) + 4 * k := by omega
  have f1 : s.off + (addr - s.vaddr + 4 * k + 1) = s.off + (addr - s.vaddr) + 4 * k + 1 := by omega
  have f2 : s.off + (addr - s.vaddr + 4 * k + 2) = s.off + (addr - s.vaddr) + 4 * k + 2 := by omega
  have f3 : s.off + (addr - s.vaddr + 4 * k + 3) = s.off + (addr - s.vaddr) + 4 * k + 2 + 1 := by omega
  rw [f0] at p0; rw [f1] at p1; rw [f2] at p2; rw [f3] at p3
  unfold readBE32 at hv1
  split at hv1
  · simp only [be32, be16, Option.bind_eq_bind, p0.2, p1.2, p2.2, p3.2, Option.bind_some, Option.pure_def]
    rw [← Option.some.inj hv1]
    refine congrArg some ?_
    omega
  · simp at hv1

/-- no panic: the PT_LOAD loop succeeds when every loadable segment fits the file and DRAM -/
theorem loadSegments_total (f : Bytes) : ∀ (pht : List Ph) (d : Mem),
    (∀ ph, ph ∈ pht → ph.ty = 1 → ph.off + ph.filesz ≤ f.size ∧ OFF0 + ph.vaddr + ph.filesz ≤ DRAM_SIZE) →
    ∃ d', loadSegments f pht d = some d' := by
  intro pht
  induction pht with
  | nil => intro d _; exact ⟨d, rfl⟩
  | cons ph rest ih =>
    intro d h
    rw [step_eq]
    by_cases hty : ph.ty = 1
    · obtain ⟨h1, h2⟩ := h ph (List.mem_cons_self ..) hty
      obtain ⟨d1, hd1⟩ := copyBytes_total f ph.filesz ph.off (OFF0 + ph.vaddr) d h1 h2
      obtain ⟨d', hd'⟩ := ih d1 (fun q hq => h q (List.mem_cons_of_mem _ hq))
      refine ⟨d', ?_⟩
      simp only [hty, beq_self_eq_true, if_true]
      rw [if_neg (by omega), hd1]
      exact hd'
    · obtain ⟨d', hd'⟩ := ih d (fun q hq => h q (List.mem_cons_of_mem _ hq))
      refine ⟨d', ?_⟩
      have : (ph.ty == 1) = false := by simpa using hty
      simp only [this]
      exact hd'

/-! ### non-vacuity: the hypotheses are met by a two-segment layout with a non-load header in between -/

def exA : Ph := { ty := 1, off := 0x100, vaddr := 0, paddr := 0, filesz := 0x40, memsz := 0x80 }
def exN : Ph := { ty := 4, off := 0, vaddr := 0x10, paddr := 0x10, filesz := 0x999, memsz := 0x999 }
def exB : Ph := { ty := 1, off := 0x140, vaddr := 0x80, paddr := 0x80, filesz := 0x20, memsz := 0x20 }

example : Disjoint [exA, exN, exB] := by
  refine ⟨?_, ?_, ?_, trivial⟩
  · intro q hq j hj
    simp only [List.mem_cons, List.mem_nil_iff, or_false] at hq
    rcases hq with rfl | rfl <;> simp [inSeg, exA, exN, exB] at hj ⊢ <;> omega
  · intro q _ j hj
    simp [inSeg, exN] at hj
  · intro q hq; cases hq

end H8.Props.C11
