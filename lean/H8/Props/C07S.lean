/-
  C07 / C01, STC.W CCR,<memory> at handler level.  The code stores the 16-bit zero extension of CCR: the byte at
  the effective address becomes 0 and the byte after it becomes CCR.  The Spec stores CCR in both bytes and leaves
  the first one open (`dc = stcw:<a>`), so instead of an equality with `Spec.exec` the theorems state the code's
  result outright, and `stcw_agree` relates it to the Spec's store: the two memories agree at every address other
  than the one the Spec leaves open.
-/
import H8.Props.C01P
import H8.Props.C06S
import H8.Props.C08X
set_option linter.unusedSimpArgs false
namespace H8.Props.C07S
open H8 H8.Lemmas H8.Props H8.Props.C01M H8.Props.C01N H8.Props.C08D H8.Props.C08W H8.Props.C08X

set_option hygiene false in
local macro "movcost_subst" : tactic => `(tactic|
  (split at h
   case h_2 => simp at h
   case h_3 => simp at h
   rename_i c1 sa h1; have := costI_state h1; subst this
   split at h
   case h_2 => simp at h
   case h_3 => simp at h
   rename_i c2 sb2 h2; have := calcStateWithAddr_state h2; subst this
   injection h with _ h; subst h))

/-- what the code stores: 0 at `a`, CCR at `a + 1` -/
def stcwBus (b : Bus) (a : BitVec 24) (ccr : BitVec 8) : Bus := Spec.storeBE b a 2 (ccr.setWidth 32)

/-- what the Spec stores (CCR in both bytes; the byte at `a` is the one it leaves open) -/
def specStcwBus (b : Bus) (a : BitVec 24) (ccr : BitVec 8) : Bus :=
  Spec.storeBE b a 2 ((ccr.setWidth 32 <<< 8) ||| ccr.setWidth 32)

theorem peek_poke_self (b b' : Bus) (a : Nat) (v : BitVec 8) :
    Spec.peek (Spec.poke b a v) a = Spec.peek (Spec.poke b' a v) a := by
  unfold Spec.peek Spec.poke
  cases ha : Spec.regionOf a <;> simp only [ha, Mem.get_set_eq]

/-- the code's store and the Spec's store agree everywhere except at the byte the Spec leaves open -/
theorem stcw_agree (b : Bus) (a : BitVec 24) (ccr : BitVec 8) (x : Nat) (hx : x ≠ (a.toNat + 0) % 2 ^ 24) :
    Spec.peek (stcwBus b a ccr) x = Spec.peek (specStcwBus b a ccr) x := by
  unfold stcwBus specStcwBus
  rw [storeBE_two, storeBE_two]
  have ev : BitVec.setWidth 8 (BitVec.setWidth 32 ccr) = BitVec.setWidth 8 ((BitVec.setWidth 32 ccr <<< 8) ||| BitVec.setWidth 32 ccr) := by
    bv_decide
  rw [← ev]
  by_cases h1 : (a.toNat + 1) % 2 ^ 24 = x
  · subst h1; exact peek_poke_self _ _ _ _
  · rw [C06S.peek_poke_ne _ _ _ _ h1, C06S.peek_poke_ne _ _ _ _ h1, C06S.peek_poke_ne _ _ _ _ (Ne.symm hx),
      C06S.peek_poke_ne _ _ _ _ (Ne.symm hx)]

/-- STC.W CCR,@ERd -/
theorem STC_W_IND (op2 : BitVec 16) (st st' : Cpu) (c : BitVec 8)
    (hp : Spec.Form.pat .STC_W_IND 0x0140 op2 0 0 0 = true) (h : stcWErn op2 st = .ok c st')
    (hsfr0 : Spec.isSfr (getEr st.regs (nib op2 3 &&& 7) &&& ADDRESS_MASK).toNat = false)
    (hsfr1 : Spec.isSfr ((getEr st.regs (nib op2 3 &&& 7) &&& ADDRESS_MASK) + 1).toNat = false) :
    st' = { st with bus := stcwBus st.bus (Spec.eaOf .W st.regs (.ind ((op2.extractLsb' 4 3).setWidth 3))) st.ccr } := by
  rw [Spec.pat_STC_W_IND] at hp; simp only [Bool.and_eq_true, beq_iff_eq] at hp
  have h3 : (nib op2 3 &&& 7).ule 7#8 = true := by (simp only [nib]; bv_decide)
  simp only [stcWErn, writeAbs24W, bind_ok, pure_ok, readRnL_ok _ _ h3, M.get] at h
  split at h
  case h_2 => simp at h
  case h_3 => simp at h
  rename_i u s1 hw
  split at hw
  case h_2 => simp at hw
  case h_3 => simp at hw
  rename_i u0 s0 hw0
  have e0 := busWrite_poke _ _ _ _ hw0 hsfr0
  subst e0
  have hm1 := busWrite_mapped _ _ _ _ hw
  have e1 := busWrite_poke _ _ _ _ hw hsfr1
  subst e1
  movcost_subst
  simp only [stcwBus, Spec.eaOf, getER_eq, storeBE_two]
  have hidx : (BitVec.setWidth 8 (BitVec.setWidth 3 (BitVec.extractLsb' 4 3 op2))) = nib op2 3 &&& 7 := by
    simp only [nib]; bv_decide
  rw [hidx, ← addr_toNat, ← addr1_toNat _ hm1]
  generalize hA : (getEr st.regs (nib op2 3 &&& 7) &&& ADDRESS_MASK).toNat = A
  generalize hB : ((getEr st.regs (nib op2 3 &&& 7) &&& ADDRESS_MASK) + 1).toNat = B
  generalize st.ccr = cc
  have e1 : BitVec.setWidth 8 (BitVec.setWidth 16 cc >>> 8) = BitVec.setWidth 8 (BitVec.setWidth 32 cc >>> 8) := by bv_decide
  have e2 : BitVec.setWidth 8 (BitVec.setWidth 16 cc) = BitVec.setWidth 8 (BitVec.setWidth 32 cc) := by bv_decide
  rw [e1, e2]

/-- STC.W CCR,@(d:16,ERd) -/
theorem STC_W_D16 (op2 d : BitVec 16) (st s1 st' : Cpu) (c : BitVec 8) (ea : Spec.EA)
    (hp : Spec.Form.pat .STC_W_D16 0x0140 op2 d 0 0 = true)
    (hi : Spec.instrOf .STC_W_D16 0x0140 op2 d 0 0 = some (.stcW ea)) (hf : fetch st = .ok d s1)
    (h : stcWDisp16 op2 st = .ok c st')
    (hsfr0 : Spec.isSfr ((getEr s1.regs (nib op2 3 &&& 7) + d.signExtend 32) &&& ADDRESS_MASK).toNat = false)
    (hsfr1 : Spec.isSfr (((getEr s1.regs (nib op2 3 &&& 7) + d.signExtend 32) &&& ADDRESS_MASK) + 1).toNat = false) :
    st' = { s1 with bus := stcwBus s1.bus (Spec.eaOf .W s1.regs ea) s1.ccr } := by
  rw [Spec.instrOf_STC_W_D16] at hi; simp only [Option.some.injEq, Spec.Instr.stcW.injEq] at hi; subst hi
  rw [Spec.pat_STC_W_D16] at hp; simp only [Bool.and_eq_true, beq_iff_eq] at hp
  have h3 : (nib op2 3 &&& 7).ule 7#8 = true := by (simp only [nib]; bv_decide)
  simp only [stcWDisp16, bind_ok, hf, getAddrDisp16, writeAbs24W, pure_ok, readRnL_ok _ _ h3, M.get] at h
  split at h
  case h_2 => simp at h
  case h_3 => simp at h
  rename_i u sw hw
  split at hw
  case h_2 => simp at hw
  case h_3 => simp at hw
  rename_i u0 s0 hw0
  have e0 := busWrite_poke _ _ _ _ hw0 hsfr0
  subst e0
  have hm1 := busWrite_mapped _ _ _ _ hw
  have e1 := busWrite_poke _ _ _ _ hw hsfr1
  subst e1
  movcost_subst
  simp only [stcwBus, Spec.eaOf, getER_eq, storeBE_two, x16]
  have hidx : (BitVec.setWidth 8 (BitVec.setWidth 3 (BitVec.extractLsb' 4 3 op2))) = nib op2 3 &&& 7 := by
    simp only [nib]; bv_decide
  rw [hidx, ← disp16_toNat, ← disp16_1_toNat _ _ hm1]
  generalize hA : ((getEr s1.regs (nib op2 3 &&& 7) + d.signExtend 32) &&& ADDRESS_MASK).toNat = A
  generalize hB : (((getEr s1.regs (nib op2 3 &&& 7) + d.signExtend 32) &&& ADDRESS_MASK) + 1).toNat = B
  generalize s1.ccr = cc
  have e1 : BitVec.setWidth 8 (BitVec.setWidth 16 cc >>> 8) = BitVec.setWidth 8 (BitVec.setWidth 32 cc >>> 8) := by bv_decide
  have e2 : BitVec.setWidth 8 (BitVec.setWidth 16 cc) = BitVec.setWidth 8 (BitVec.setWidth 32 cc) := by bv_decide
  rw [e1, e2]

/-- STC.W CCR,@aa:16 -/
theorem STC_W_AA16 (a : BitVec 16) (st s1 st' : Cpu) (c : BitVec 8) (ea : Spec.EA)
    (hi : Spec.instrOf .STC_W_AA16 0x0140 0x6b80 a 0 0 = some (.stcW ea)) (hf : fetch st = .ok a s1)
    (h : stcAbs16 st = .ok c st')
    (hsfr0 : Spec.isSfr (getAddrAbs16 a).toNat = false)
    (hsfr1 : Spec.isSfr ((getAddrAbs16 a) + 1).toNat = false) :
    st' = { s1 with bus := stcwBus s1.bus (Spec.eaOf .W s1.regs ea) s1.ccr } := by
  rw [Spec.instrOf_STC_W_AA16] at hi; simp only [Option.some.injEq, Spec.Instr.stcW.injEq] at hi; subst hi
  simp only [stcAbs16, bind_ok, hf, writeAbs24W, pure_ok, M.get] at h
  split at h
  case h_2 => simp at h
  case h_3 => simp at h
  rename_i u sw hw
  split at hw
  case h_2 => simp at hw
  case h_3 => simp at hw
  rename_i u0 s0 hw0
  have e0 := busWrite_poke _ _ _ _ hw0 hsfr0
  subst e0
  have hm1 := busWrite_mapped _ _ _ _ hw
  have e1 := busWrite_poke _ _ _ _ hw hsfr1
  subst e1
  movcost_subst
  simp only [stcwBus, Spec.eaOf, storeBE_two, x16]
  rw [← abs16_toNat, ← abs16_1_toNat _ hm1]
  generalize hA : (getAddrAbs16 a).toNat = A
  generalize hB : ((getAddrAbs16 a) + 1).toNat = B
  generalize s1.ccr = cc
  have e1 : BitVec.setWidth 8 (BitVec.setWidth 16 cc >>> 8) = BitVec.setWidth 8 (BitVec.setWidth 32 cc >>> 8) := by bv_decide
  have e2 : BitVec.setWidth 8 (BitVec.setWidth 16 cc) = BitVec.setWidth 8 (BitVec.setWidth 32 cc) := by bv_decide
  rw [e1, e2]

/-- STC.W CCR,@aa:24 -/
theorem STC_W_AA24 (hi lo : BitVec 16) (st s1 s2 st' : Cpu) (c : BitVec 8) (ea : Spec.EA)
    (hp : Spec.Form.pat .STC_W_AA24 0x0140 0x6ba0 hi lo 0 = true)
    (hi' : Spec.instrOf .STC_W_AA24 0x0140 0x6ba0 hi lo 0 = some (.stcW ea))
    (hf : fetch st = .ok hi s1) (hf2 : fetch s1 = .ok lo s2)
    (h : stcAbs24 st = .ok c st')
    (hsfr0 : Spec.isSfr ((hi.setWidth 32 <<< 16) ||| lo.setWidth 32).toNat = false)
    (hsfr1 : Spec.isSfr (((hi.setWidth 32 <<< 16) ||| lo.setWidth 32) + 1).toNat = false) :
    st' = { s2 with bus := stcwBus s2.bus (Spec.eaOf .W s2.regs ea) s2.ccr } := by
  rw [Spec.instrOf_STC_W_AA24] at hi'; simp only [Option.some.injEq, Spec.Instr.stcW.injEq] at hi'; subst hi'
  rw [Spec.pat_STC_W_AA24] at hp; simp only [Bool.and_eq_true, beq_iff_eq] at hp
  simp only [stcAbs24, bind_ok, C08D.fetch32_ok _ _ _ _ _ hf hf2, writeAbs24W, pure_ok, M.get] at h
  split at h
  case h_2 => simp at h
  case h_3 => simp at h
  rename_i u sw hw
  split at hw
  case h_2 => simp at hw
  case h_3 => simp at hw
  rename_i u0 s0 hw0
  have e0 := busWrite_poke _ _ _ _ hw0 hsfr0
  subst e0
  have hm1 := busWrite_mapped _ _ _ _ hw
  have e1 := busWrite_poke _ _ _ _ hw hsfr1
  subst e1
  movcost_subst
  simp only [stcwBus, Spec.eaOf, storeBE_two]
  rw [← abs24_toNat hi lo hp.1.1.2, ← abs24_1_toNat hi lo hp.1.1.2 hm1]
  generalize hA : ((hi.setWidth 32 <<< 16) ||| lo.setWidth 32).toNat = A
  generalize hB : (((hi.setWidth 32 <<< 16) ||| lo.setWidth 32) + 1).toNat = B
  generalize s2.ccr = cc
  have e1 : BitVec.setWidth 8 (BitVec.setWidth 16 cc >>> 8) = BitVec.setWidth 8 (BitVec.setWidth 32 cc >>> 8) := by bv_decide
  have e2 : BitVec.setWidth 8 (BitVec.setWidth 16 cc) = BitVec.setWidth 8 (BitVec.setWidth 32 cc) := by bv_decide
  rw [e1, e2]

/-- STC.W CCR,@(d:24,ERd) -/
theorem STC_W_D24 (op2 hi lo : BitVec 16) (st s1 s2 s3 st' : Cpu) (c : BitVec 8) (ea : Spec.EA)
    (hp : Spec.Form.pat .STC_W_D24 0x0140 op2 0x6ba0 hi lo = true)
    (hi' : Spec.instrOf .STC_W_D24 0x0140 op2 0x6ba0 hi lo = some (.stcW ea))
    (hf0 : fetch st = .ok 0x6ba0 s1) (hf : fetch s1 = .ok hi s2) (hf2 : fetch s2 = .ok lo s3)
    (h : stcWDisp24 op2 st = .ok c st')
    (hsfr0 : Spec.isSfr ((getEr s3.regs (nib op2 3) + ((hi.setWidth 32 <<< 16) ||| lo.setWidth 32)) &&& ADDRESS_MASK).toNat = false)
    (hsfr1 : Spec.isSfr (((getEr s3.regs (nib op2 3) + ((hi.setWidth 32 <<< 16) ||| lo.setWidth 32)) &&& ADDRESS_MASK) + 1).toNat = false) :
    st' = { s3 with bus := stcwBus s3.bus (Spec.eaOf .W s3.regs ea) s3.ccr } := by
  rw [Spec.instrOf_STC_W_D24] at hi'; simp only [Option.some.injEq, Spec.Instr.stcW.injEq] at hi'; subst hi'
  rw [Spec.pat_STC_W_D24] at hp; simp only [Bool.and_eq_true, beq_iff_eq] at hp
  have h3 : (nib op2 3).ule 7#8 = true := by (simp only [nib]; bv_decide)
  have hne : ((0x6ba0 : BitVec 16) != 0x6ba0) = false := by decide
  simp only [stcWDisp24, bind_ok, hf0, hne, Bool.false_eq_true, if_false, fetch32_ok _ _ _ _ _ hf hf2, getAddrDisp24, writeAbs24W,
    pure_ok, readRnL_ok _ _ h3, M.get] at h
  split at h
  case h_2 => simp at h
  case h_3 => simp at h
  rename_i u sw hw
  split at hw
  case h_2 => simp at hw
  case h_3 => simp at hw
  rename_i u0 s0 hw0
  have e0 := busWrite_poke _ _ _ _ hw0 hsfr0
  subst e0
  have hm1 := busWrite_mapped _ _ _ _ hw
  have e1 := busWrite_poke _ _ _ _ hw hsfr1
  subst e1
  movcost_subst
  simp only [stcwBus, Spec.eaOf, getER_eq, storeBE_two]
  have hidx : (BitVec.setWidth 8 (BitVec.setWidth 3 (BitVec.extractLsb' 4 3 op2))) = nib op2 3 := by
    simp only [nib]; bv_decide
  rw [hidx, ← disp24_toNat _ hi lo hp.1.2, ← disp24_1_toNat _ hi lo hp.1.2 hm1]
  generalize hA : ((getEr s3.regs (nib op2 3) + ((hi.setWidth 32 <<< 16) ||| lo.setWidth 32)) &&& ADDRESS_MASK).toNat = A
  generalize hB : (((getEr s3.regs (nib op2 3) + ((hi.setWidth 32 <<< 16) ||| lo.setWidth 32)) &&& ADDRESS_MASK) + 1).toNat = B
  generalize s3.ccr = cc
  have e1 : BitVec.setWidth 8 (BitVec.setWidth 16 cc >>> 8) = BitVec.setWidth 8 (BitVec.setWidth 32 cc >>> 8) := by bv_decide
  have e2 : BitVec.setWidth 8 (BitVec.setWidth 16 cc) = BitVec.setWidth 8 (BitVec.setWidth 32 cc) := by bv_decide
  rw [e1, e2]

set_option hygiene false in
local macro "movcost3_subst" : tactic => `(tactic|
  (split at h
   case h_2 => simp at h
   case h_3 => simp at h
   rename_i c1 sa h1; have := costI_state h1; subst this
   split at h
   case h_2 => simp at h
   case h_3 => simp at h
   rename_i c2 sb2 h2; have := calcStateWithAddr_state h2; subst this
   split at h
   case h_2 => simp at h
   case h_3 => simp at h
   rename_i c3 sb3 h3; have := calcState_state h3; subst this
   injection h with _ h; subst h))

/-- What the code does for the encoding of STC.W CCR,@-ERd (`stc_w_inc_ern`): it stores at the address in ERd and
    then adds 2 to ERd — a post-increment store.  (Known finding C07-STCW-PREDEC; stated for the code as it is.) -/
theorem STC_W_PREDEC_code (op2 : BitVec 16) (st st' : Cpu) (c : BitVec 8)
    (hp : Spec.Form.pat .STC_W_PREDEC 0x0140 op2 0 0 0 = true) (h : stcWIncErn op2 st = .ok c st')
    (f0 : Spec.isSfr (getEr st.regs (nib op2 3 &&& 7) &&& ADDRESS_MASK).toNat = false)
    (f1 : Spec.isSfr ((getEr st.regs (nib op2 3 &&& 7) &&& ADDRESS_MASK) + 1).toNat = false) :
    st' = { st with regs := setEr st.regs (nib op2 3 &&& 7) (getEr st.regs (nib op2 3 &&& 7) + 2),
                    bus := stcwBus st.bus ((getEr st.regs (nib op2 3 &&& 7)).setWidth 24) st.ccr } := by
  rw [Spec.pat_STC_W_PREDEC] at hp; simp only [Bool.and_eq_true, beq_iff_eq] at hp
  have h3 : (nib op2 3 &&& 7).ule 7#8 = true := by (simp only [nib]; bv_decide)
  simp only [stcWIncErn, writeIncErn, writeMem, bind_ok, pure_ok, readRnL_ok _ _ h3, M.get, Sz.bytes] at h
  split at h
  case h_2 => simp at h
  case h_3 => simp at h
  rename_i u s1 hw
  split at hw
  case h_2 => simp at hw
  case h_3 => simp at hw
  rename_i u0 s0 hw0
  have ew := C01P.writeAbs24W_poke _ _ _ _ hw0 f0 f1
  subst ew
  simp only [writeRnL_ok _ _ _ h3, Res.ok.injEq, true_and] at hw
  subst hw
  movcost3_subst
  simp only [stcwBus]
  generalize st.ccr = cc
  have e : BitVec.setWidth 32 (BitVec.setWidth 16 (BitVec.setWidth 32 cc)) = BitVec.setWidth 32 cc := by bv_decide
  rw [e]

theorem getEr_setEr_same (r : Regs) (e : BitVec 8) (v : BitVec 32) : getEr (setEr r e v) e = v := by
  simp only [getEr, setEr, shOf]
  have hc : (e &&& 7) = 0 ∨ (e &&& 7) = 1 ∨ (e &&& 7) = 2 ∨ (e &&& 7) = 3 ∨ (e &&& 7) = 4 ∨ (e &&& 7) = 5 ∨ (e &&& 7) = 6 ∨
      (e &&& 7) = 7 := by bv_decide
  rcases hc with h | h | h | h | h | h | h | h <;> rw [h] <;> bv_decide

/-- … which is never what the encoding means: the Spec's address register after STC.W CCR,@-ERd is ERd − 2, the code's
    is ERd + 2, and these differ for every register value. -/
theorem STC_W_PREDEC_finding (op2 : BitVec 16) (st st' : Cpu) (c : BitVec 8)
    (hp : Spec.Form.pat .STC_W_PREDEC 0x0140 op2 0 0 0 = true) (h : stcWIncErn op2 st = .ok c st')
    (f0 : Spec.isSfr (getEr st.regs (nib op2 3 &&& 7) &&& ADDRESS_MASK).toNat = false)
    (f1 : Spec.isSfr ((getEr st.regs (nib op2 3 &&& 7) &&& ADDRESS_MASK) + 1).toNat = false) :
    st'.regs ≠ Spec.eaRegs .W st.regs (.predec ((op2.extractLsb' 4 3).setWidth 3)) := by
  have e := STC_W_PREDEC_code op2 st st' c hp h f0 f1
  subst e
  rw [Spec.pat_STC_W_PREDEC] at hp; simp only [Bool.and_eq_true, beq_iff_eq] at hp
  simp only [Spec.eaRegs, getER_eq, setER_eq, Spec.Sz.bytes]
  have hidx : (BitVec.setWidth 8 (BitVec.setWidth 3 (BitVec.extractLsb' 4 3 op2))) = nib op2 3 &&& 7 := by
    simp only [nib]; bv_decide
  rw [hidx]
  have h3 : (nib op2 3 &&& 7).ule 7#8 = true := by (simp only [nib]; bv_decide)
  generalize nib op2 3 &&& 7 = e at h3 ⊢
  generalize st.regs = r
  intro hc
  have := congrArg (fun x => getEr x e) hc
  simp only [getEr_setEr_same] at this
  have h2 : (BitVec.ofNat 32 2) = 2#32 := rfl
  rw [h2] at this
  bv_decide

end H8.Props.C07S
