/-
  C20, memory bit manipulation — the 28 forms of C04M and the 8 bit-number-in-register forms of C04N on `@ERd` and `@aa:8` are charged two fetch cycles at the
  instruction's own address plus their byte data cycles (two for the read-modify-write forms BSET / BCLR / BNOT / BST /
  BIST, one for BTST / BLD … BIXOR) AT THE OPERAND'S ADDRESS, with the bus settings of the state the instruction leaves.
-/
import H8.Props.C04M
import H8.Props.C04N
import H8.Props.C20X
set_option linter.unusedSimpArgs false
set_option linter.unusedVariables false
namespace H8.Props.C20Y
open H8 H8.Lemmas H8.Props H8.Props.C01M H8.Props.C20X

set_option hygiene false in
local macro "cost2_keep" : tactic => `(tactic|
  (split at h
   case h_2 => simp at h
   case h_3 => simp at h
   rename_i c1 sa h1; have e1 := costI_state h1; subst e1
   split at h
   case h_2 => simp at h
   case h_3 => simp at h
   rename_i c2 sb2 h2; have e2 := calcStateWithAddr_state h2; subst e2
   injection h with hc hs; subst hs
   exact ⟨c1, c2, h1, h2, by rw [← hc]; simp⟩))

theorem cost_BSET_I_IND (op op2 : BitVec 16) (st st' : Cpu) (c : BitVec 8)
    (hp : Spec.Form.pat .BSET_I_IND op op2 0 0 0 = true) (h : bmodErn .set 0x7000 0x6000 op op2 st = .ok c st')
    (hsfr : Spec.isSfr (getEr st.regs (nib op 3) &&& ADDRESS_MASK).toNat = false) :
    ChargedAt 2 .L 2 (getEr st.regs (nib op 3) &&& ADDRESS_MASK) 0 st' c ∧ Spec.Form.mix .BSET_I_IND = { i := 2, l := 2 } := by
  refine ⟨?_, rfl⟩
  bitw_ind_pre Spec.pat_BSET_I_IND
  cost2_keep

theorem cost_BNOT_I_IND (op op2 : BitVec 16) (st st' : Cpu) (c : BitVec 8)
    (hp : Spec.Form.pat .BNOT_I_IND op op2 0 0 0 = true) (h : bmodErn .not_ 0x7100 0x6100 op op2 st = .ok c st')
    (hsfr : Spec.isSfr (getEr st.regs (nib op 3) &&& ADDRESS_MASK).toNat = false) :
    ChargedAt 2 .L 2 (getEr st.regs (nib op 3) &&& ADDRESS_MASK) 0 st' c ∧ Spec.Form.mix .BNOT_I_IND = { i := 2, l := 2 } := by
  refine ⟨?_, rfl⟩
  bitw_ind_pre Spec.pat_BNOT_I_IND
  cost2_keep

theorem cost_BCLR_I_IND (op op2 : BitVec 16) (st st' : Cpu) (c : BitVec 8)
    (hp : Spec.Form.pat .BCLR_I_IND op op2 0 0 0 = true) (h : bmodErn .clr 0x7200 0x6200 op op2 st = .ok c st')
    (hsfr : Spec.isSfr (getEr st.regs (nib op 3) &&& ADDRESS_MASK).toNat = false) :
    ChargedAt 2 .L 2 (getEr st.regs (nib op 3) &&& ADDRESS_MASK) 0 st' c ∧ Spec.Form.mix .BCLR_I_IND = { i := 2, l := 2 } := by
  refine ⟨?_, rfl⟩
  bitw_ind_pre Spec.pat_BCLR_I_IND
  cost2_keep

theorem cost_BST_IND (op op2 : BitVec 16) (st st' : Cpu) (c : BitVec 8)
    (hp : Spec.Form.pat .BST_IND op op2 0 0 0 = true) (h : bstErn false op op2 st = .ok c st')
    (hsfr : Spec.isSfr (getEr st.regs (nib op 3) &&& ADDRESS_MASK).toNat = false) :
    ChargedAt 2 .L 2 (getEr st.regs (nib op 3) &&& ADDRESS_MASK) 0 st' c ∧ Spec.Form.mix .BST_IND = { i := 2, l := 2 } := by
  refine ⟨?_, rfl⟩
  bitw_ind_pre Spec.pat_BST_IND
  cost2_keep

theorem cost_BIST_IND (op op2 : BitVec 16) (st st' : Cpu) (c : BitVec 8)
    (hp : Spec.Form.pat .BIST_IND op op2 0 0 0 = true) (h : bstErn true op op2 st = .ok c st')
    (hsfr : Spec.isSfr (getEr st.regs (nib op 3) &&& ADDRESS_MASK).toNat = false) :
    ChargedAt 2 .L 2 (getEr st.regs (nib op 3) &&& ADDRESS_MASK) 0 st' c ∧ Spec.Form.mix .BIST_IND = { i := 2, l := 2 } := by
  refine ⟨?_, rfl⟩
  bitw_ind_pre Spec.pat_BIST_IND
  cost2_keep

theorem cost_BTST_I_IND (op op2 : BitVec 16) (st st' : Cpu) (c : BitVec 8)
    (hp : Spec.Form.pat .BTST_I_IND op op2 0 0 0 = true) (h : btstErn false op op2 st = .ok c st') :
    ChargedAt 2 .L 1 (getEr st.regs (nib op 3) &&& ADDRESS_MASK) 0 st' c ∧ Spec.Form.mix .BTST_I_IND = { i := 2, l := 1 } := by
  refine ⟨?_, rfl⟩
  bitr_ind_pre Spec.pat_BTST_I_IND
  cost2_keep

theorem cost_BLD_IND (op op2 : BitVec 16) (st st' : Cpu) (c : BitVec 8)
    (hp : Spec.Form.pat .BLD_IND op op2 0 0 0 = true) (h : baccErn .ld op op2 st = .ok c st') :
    ChargedAt 2 .L 1 (getEr st.regs (nib op 3) &&& ADDRESS_MASK) 0 st' c ∧ Spec.Form.mix .BLD_IND = { i := 2, l := 1 } := by
  refine ⟨?_, rfl⟩
  bitr_ind_pre Spec.pat_BLD_IND
  cost2_keep

theorem cost_BILD_IND (op op2 : BitVec 16) (st st' : Cpu) (c : BitVec 8)
    (hp : Spec.Form.pat .BILD_IND op op2 0 0 0 = true) (h : baccErn .ild op op2 st = .ok c st') :
    ChargedAt 2 .L 1 (getEr st.regs (nib op 3) &&& ADDRESS_MASK) 0 st' c ∧ Spec.Form.mix .BILD_IND = { i := 2, l := 1 } := by
  refine ⟨?_, rfl⟩
  bitr_ind_pre Spec.pat_BILD_IND
  cost2_keep

theorem cost_BAND_IND (op op2 : BitVec 16) (st st' : Cpu) (c : BitVec 8)
    (hp : Spec.Form.pat .BAND_IND op op2 0 0 0 = true) (h : baccErn .and op op2 st = .ok c st') :
    ChargedAt 2 .L 1 (getEr st.regs (nib op 3) &&& ADDRESS_MASK) 0 st' c ∧ Spec.Form.mix .BAND_IND = { i := 2, l := 1 } := by
  refine ⟨?_, rfl⟩
  bitr_ind_pre Spec.pat_BAND_IND
  cost2_keep

theorem cost_BIAND_IND (op op2 : BitVec 16) (st st' : Cpu) (c : BitVec 8)
    (hp : Spec.Form.pat .BIAND_IND op op2 0 0 0 = true) (h : baccErn .iand op op2 st = .ok c st') :
    ChargedAt 2 .L 1 (getEr st.regs (nib op 3) &&& ADDRESS_MASK) 0 st' c ∧ Spec.Form.mix .BIAND_IND = { i := 2, l := 1 } := by
  refine ⟨?_, rfl⟩
  bitr_ind_pre Spec.pat_BIAND_IND
  cost2_keep

theorem cost_BOR_IND (op op2 : BitVec 16) (st st' : Cpu) (c : BitVec 8)
    (hp : Spec.Form.pat .BOR_IND op op2 0 0 0 = true) (h : baccErn .or op op2 st = .ok c st') :
    ChargedAt 2 .L 1 (getEr st.regs (nib op 3) &&& ADDRESS_MASK) 0 st' c ∧ Spec.Form.mix .BOR_IND = { i := 2, l := 1 } := by
  refine ⟨?_, rfl⟩
  bitr_ind_pre Spec.pat_BOR_IND
  cost2_keep

theorem cost_BIOR_IND (op op2 : BitVec 16) (st st' : Cpu) (c : BitVec 8)
    (hp : Spec.Form.pat .BIOR_IND op op2 0 0 0 = true) (h : baccErn .ior op op2 st = .ok c st') :
    ChargedAt 2 .L 1 (getEr st.regs (nib op 3) &&& ADDRESS_MASK) 0 st' c ∧ Spec.Form.mix .BIOR_IND = { i := 2, l := 1 } := by
  refine ⟨?_, rfl⟩
  bitr_ind_pre Spec.pat_BIOR_IND
  cost2_keep

theorem cost_BXOR_IND (op op2 : BitVec 16) (st st' : Cpu) (c : BitVec 8)
    (hp : Spec.Form.pat .BXOR_IND op op2 0 0 0 = true) (h : baccErn .xor op op2 st = .ok c st') :
    ChargedAt 2 .L 1 (getEr st.regs (nib op 3) &&& ADDRESS_MASK) 0 st' c ∧ Spec.Form.mix .BXOR_IND = { i := 2, l := 1 } := by
  refine ⟨?_, rfl⟩
  bitr_ind_pre Spec.pat_BXOR_IND
  cost2_keep

theorem cost_BIXOR_IND (op op2 : BitVec 16) (st st' : Cpu) (c : BitVec 8)
    (hp : Spec.Form.pat .BIXOR_IND op op2 0 0 0 = true) (h : baccErn .ixor op op2 st = .ok c st') :
    ChargedAt 2 .L 1 (getEr st.regs (nib op 3) &&& ADDRESS_MASK) 0 st' c ∧ Spec.Form.mix .BIXOR_IND = { i := 2, l := 1 } := by
  refine ⟨?_, rfl⟩
  bitr_ind_pre Spec.pat_BIXOR_IND
  cost2_keep

theorem cost_BSET_I_AA8 (op op2 : BitVec 16) (st st' : Cpu) (c : BitVec 8)
    (hp : Spec.Form.pat .BSET_I_AA8 op op2 0 0 0 = true) (h : bmodAbs .set 0x7000 0x6000 op op2 st = .ok c st')
    (hsfr : Spec.isSfr (getAddrAbs8 (op.setWidth 8)).toNat = false) :
    ChargedAt 2 .L 2 (getAddrAbs8 (op.setWidth 8)) 0 st' c ∧ Spec.Form.mix .BSET_I_AA8 = { i := 2, l := 2 } := by
  refine ⟨?_, rfl⟩
  bitw_abs_pre Spec.pat_BSET_I_AA8
  cost2_keep

theorem cost_BNOT_I_AA8 (op op2 : BitVec 16) (st st' : Cpu) (c : BitVec 8)
    (hp : Spec.Form.pat .BNOT_I_AA8 op op2 0 0 0 = true) (h : bmodAbs .not_ 0x7100 0x6100 op op2 st = .ok c st')
    (hsfr : Spec.isSfr (getAddrAbs8 (op.setWidth 8)).toNat = false) :
    ChargedAt 2 .L 2 (getAddrAbs8 (op.setWidth 8)) 0 st' c ∧ Spec.Form.mix .BNOT_I_AA8 = { i := 2, l := 2 } := by
  refine ⟨?_, rfl⟩
  bitw_abs_pre Spec.pat_BNOT_I_AA8
  cost2_keep

theorem cost_BCLR_I_AA8 (op op2 : BitVec 16) (st st' : Cpu) (c : BitVec 8)
    (hp : Spec.Form.pat .BCLR_I_AA8 op op2 0 0 0 = true) (h : bmodAbs .clr 0x7200 0x6200 op op2 st = .ok c st')
    (hsfr : Spec.isSfr (getAddrAbs8 (op.setWidth 8)).toNat = false) :
    ChargedAt 2 .L 2 (getAddrAbs8 (op.setWidth 8)) 0 st' c ∧ Spec.Form.mix .BCLR_I_AA8 = { i := 2, l := 2 } := by
  refine ⟨?_, rfl⟩
  bitw_abs_pre Spec.pat_BCLR_I_AA8
  cost2_keep

theorem cost_BST_AA8 (op op2 : BitVec 16) (st st' : Cpu) (c : BitVec 8)
    (hp : Spec.Form.pat .BST_AA8 op op2 0 0 0 = true) (h : bstAbs false op op2 st = .ok c st')
    (hsfr : Spec.isSfr (getAddrAbs8 (op.setWidth 8)).toNat = false) :
    ChargedAt 2 .L 2 (getAddrAbs8 (op.setWidth 8)) 0 st' c ∧ Spec.Form.mix .BST_AA8 = { i := 2, l := 2 } := by
  refine ⟨?_, rfl⟩
  bitw_abs_pre Spec.pat_BST_AA8
  cost2_keep

theorem cost_BIST_AA8 (op op2 : BitVec 16) (st st' : Cpu) (c : BitVec 8)
    (hp : Spec.Form.pat .BIST_AA8 op op2 0 0 0 = true) (h : bstAbs true op op2 st = .ok c st')
    (hsfr : Spec.isSfr (getAddrAbs8 (op.setWidth 8)).toNat = false) :
    ChargedAt 2 .L 2 (getAddrAbs8 (op.setWidth 8)) 0 st' c ∧ Spec.Form.mix .BIST_AA8 = { i := 2, l := 2 } := by
  refine ⟨?_, rfl⟩
  bitw_abs_pre Spec.pat_BIST_AA8
  cost2_keep

theorem cost_BTST_I_AA8 (op op2 : BitVec 16) (st st' : Cpu) (c : BitVec 8)
    (hp : Spec.Form.pat .BTST_I_AA8 op op2 0 0 0 = true) (h : btstAbs false op op2 st = .ok c st') :
    ChargedAt 2 .L 1 (getAddrAbs8 (op.setWidth 8)) 0 st' c ∧ Spec.Form.mix .BTST_I_AA8 = { i := 2, l := 1 } := by
  refine ⟨?_, rfl⟩
  bitr_abs_pre Spec.pat_BTST_I_AA8
  cost2_keep

theorem cost_BLD_AA8 (op op2 : BitVec 16) (st st' : Cpu) (c : BitVec 8)
    (hp : Spec.Form.pat .BLD_AA8 op op2 0 0 0 = true) (h : baccAbs .ld op op2 st = .ok c st') :
    ChargedAt 2 .L 1 (getAddrAbs8 (op.setWidth 8)) 0 st' c ∧ Spec.Form.mix .BLD_AA8 = { i := 2, l := 1 } := by
  refine ⟨?_, rfl⟩
  bitr_abs_pre Spec.pat_BLD_AA8
  cost2_keep

theorem cost_BILD_AA8 (op op2 : BitVec 16) (st st' : Cpu) (c : BitVec 8)
    (hp : Spec.Form.pat .BILD_AA8 op op2 0 0 0 = true) (h : baccAbs .ild op op2 st = .ok c st') :
    ChargedAt 2 .L 1 (getAddrAbs8 (op.setWidth 8)) 0 st' c ∧ Spec.Form.mix .BILD_AA8 = { i := 2, l := 1 } := by
  refine ⟨?_, rfl⟩
  bitr_abs_pre Spec.pat_BILD_AA8
  cost2_keep

theorem cost_BAND_AA8 (op op2 : BitVec 16) (st st' : Cpu) (c : BitVec 8)
    (hp : Spec.Form.pat .BAND_AA8 op op2 0 0 0 = true) (h : baccAbs .and op op2 st = .ok c st') :
    ChargedAt 2 .L 1 (getAddrAbs8 (op.setWidth 8)) 0 st' c ∧ Spec.Form.mix .BAND_AA8 = { i := 2, l := 1 } := by
  refine ⟨?_, rfl⟩
  bitr_abs_pre Spec.pat_BAND_AA8
  cost2_keep

theorem cost_BIAND_AA8 (op op2 : BitVec 16) (st st' : Cpu) (c : BitVec 8)
    (hp : Spec.Form.pat .BIAND_AA8 op op2 0 0 0 = true) (h : baccAbs .iand op op2 st = .ok c st') :
    ChargedAt 2 .L 1 (getAddrAbs8 (op.setWidth 8)) 0 st' c ∧ Spec.Form.mix .BIAND_AA8 = { i := 2, l := 1 } := by
  refine ⟨?_, rfl⟩
  bitr_abs_pre Spec.pat_BIAND_AA8
  cost2_keep

theorem cost_BOR_AA8 (op op2 : BitVec 16) (st st' : Cpu) (c : BitVec 8)
    (hp : Spec.Form.pat .BOR_AA8 op op2 0 0 0 = true) (h : baccAbs .or op op2 st = .ok c st') :
    ChargedAt 2 .L 1 (getAddrAbs8 (op.setWidth 8)) 0 st' c ∧ Spec.Form.mix .BOR_AA8 = { i := 2, l := 1 } := by
  refine ⟨?_, rfl⟩
  bitr_abs_pre Spec.pat_BOR_AA8
  cost2_keep

theorem cost_BIOR_AA8 (op op2 : BitVec 16) (st st' : Cpu) (c : BitVec 8)
    (hp : Spec.Form.pat .BIOR_AA8 op op2 0 0 0 = true) (h : baccAbs .ior op op2 st = .ok c st') :
    ChargedAt 2 .L 1 (getAddrAbs8 (op.setWidth 8)) 0 st' c ∧ Spec.Form.mix .BIOR_AA8 = { i := 2, l := 1 } := by
  refine ⟨?_, rfl⟩
  bitr_abs_pre Spec.pat_BIOR_AA8
  cost2_keep

theorem cost_BXOR_AA8 (op op2 : BitVec 16) (st st' : Cpu) (c : BitVec 8)
    (hp : Spec.Form.pat .BXOR_AA8 op op2 0 0 0 = true) (h : baccAbs .xor op op2 st = .ok c st') :
    ChargedAt 2 .L 1 (getAddrAbs8 (op.setWidth 8)) 0 st' c ∧ Spec.Form.mix .BXOR_AA8 = { i := 2, l := 1 } := by
  refine ⟨?_, rfl⟩
  bitr_abs_pre Spec.pat_BXOR_AA8
  cost2_keep

theorem cost_BIXOR_AA8 (op op2 : BitVec 16) (st st' : Cpu) (c : BitVec 8)
    (hp : Spec.Form.pat .BIXOR_AA8 op op2 0 0 0 = true) (h : baccAbs .ixor op op2 st = .ok c st') :
    ChargedAt 2 .L 1 (getAddrAbs8 (op.setWidth 8)) 0 st' c ∧ Spec.Form.mix .BIXOR_AA8 = { i := 2, l := 1 } := by
  refine ⟨?_, rfl⟩
  bitr_abs_pre Spec.pat_BIXOR_AA8
  cost2_keep

/-! ### bit number in a register (`C04N`): BSET / BNOT / BCLR / BTST Rn,@ERd and Rn,@aa:8 -/

set_option hygiene false in
local macro "bitw_rn_cost" pl:ident : tactic => `(tactic|
  (refine ⟨?_, rfl⟩
   rw [$pl:ident] at hp; simp only [Bool.and_eq_true, beq_iff_eq] at hp
   first
     | (have h3 : (nib op 3).ule 7#8 = true := by (simp only [nib]; bv_decide))
     | (have h3 : (7 : BitVec 8).ule 7#8 = true := by decide)
   first
     | (have htag : (op2 &&& 0xff0f == 0x7000) = false ∧ (op2 &&& 0xff0f == 0x6000) = true := by constructor <;> bv_decide)
     | (have htag : (op2 &&& 0xff0f == 0x7100) = false ∧ (op2 &&& 0xff0f == 0x6100) = true := by constructor <;> bv_decide)
     | (have htag : (op2 &&& 0xff0f == 0x7200) = false ∧ (op2 &&& 0xff0f == 0x6200) = true := by constructor <;> bv_decide)
   simp only [bmodErn, bmodAbs, getAddrErn, htag.1, htag.2, Bool.false_eq_true, if_false, if_true, bind_ok, pure_ok, get_ok,
     readRnL_ok _ _ h3, readRnB_nib] at h
   split at h
   case h_2 => simp at h
   case h_3 => simp at h
   rename_i vb sb hbb
   obtain ⟨e1, e2, _⟩ := busRead_peek _ _ _ _ hbb
   subst e1
   split at h
   case h_2 => simp at h
   case h_3 => simp at h
   rename_i u s1 hrw
   have ew := busWrite_poke _ _ _ _ hrw hsfr
   subst ew
   cost2_keep))

set_option hygiene false in
local macro "btst_rn_cost" pl:ident : tactic => `(tactic|
  (refine ⟨?_, rfl⟩
   rw [$pl:ident] at hp; simp only [Bool.and_eq_true, beq_iff_eq] at hp
   first
     | (have h3 : (nib op 3).ule 7#8 = true := by (simp only [nib]; bv_decide))
     | (have h3 : (7 : BitVec 8).ule 7#8 = true := by decide)
   simp only [btstErn, btstAbs, btstSet, getAddrErn, if_true, bind_ok, pure_ok, get_ok, readRnL_ok _ _ h3, readRnB_nib,
     changeCcr_ok] at h
   split at h
   case h_2 => simp at h
   case h_3 => simp at h
   rename_i vb sb hbb
   obtain ⟨e1, e2, _⟩ := busRead_peek _ _ _ _ hbb
   subst e1
   cost2_keep))

theorem cost_BSET_RN_IND (op op2 : BitVec 16) (st st' : Cpu) (c : BitVec 8)
    (hp : Spec.Form.pat .BSET_RN_IND op op2 0 0 0 = true) (h : bmodErn .set 0x7000 0x6000 op op2 st = .ok c st')
    (hsfr : Spec.isSfr (getEr st.regs (nib op 3) &&& ADDRESS_MASK).toNat = false) :
    ChargedAt 2 .L 2 (getEr st.regs (nib op 3) &&& ADDRESS_MASK) 0 st' c ∧ Spec.Form.mix .BSET_RN_IND = { i := 2, l := 2 } := by
  bitw_rn_cost Spec.pat_BSET_RN_IND

theorem cost_BNOT_RN_IND (op op2 : BitVec 16) (st st' : Cpu) (c : BitVec 8)
    (hp : Spec.Form.pat .BNOT_RN_IND op op2 0 0 0 = true) (h : bmodErn .not_ 0x7100 0x6100 op op2 st = .ok c st')
    (hsfr : Spec.isSfr (getEr st.regs (nib op 3) &&& ADDRESS_MASK).toNat = false) :
    ChargedAt 2 .L 2 (getEr st.regs (nib op 3) &&& ADDRESS_MASK) 0 st' c ∧ Spec.Form.mix .BNOT_RN_IND = { i := 2, l := 2 } := by
  bitw_rn_cost Spec.pat_BNOT_RN_IND

theorem cost_BCLR_RN_IND (op op2 : BitVec 16) (st st' : Cpu) (c : BitVec 8)
    (hp : Spec.Form.pat .BCLR_RN_IND op op2 0 0 0 = true) (h : bmodErn .clr 0x7200 0x6200 op op2 st = .ok c st')
    (hsfr : Spec.isSfr (getEr st.regs (nib op 3) &&& ADDRESS_MASK).toNat = false) :
    ChargedAt 2 .L 2 (getEr st.regs (nib op 3) &&& ADDRESS_MASK) 0 st' c ∧ Spec.Form.mix .BCLR_RN_IND = { i := 2, l := 2 } := by
  bitw_rn_cost Spec.pat_BCLR_RN_IND

theorem cost_BSET_RN_AA8 (op op2 : BitVec 16) (st st' : Cpu) (c : BitVec 8)
    (hp : Spec.Form.pat .BSET_RN_AA8 op op2 0 0 0 = true) (h : bmodAbs .set 0x7000 0x6000 op op2 st = .ok c st')
    (hsfr : Spec.isSfr (getAddrAbs8 (op.setWidth 8)).toNat = false) :
    ChargedAt 2 .L 2 (getAddrAbs8 (op.setWidth 8)) 0 st' c ∧ Spec.Form.mix .BSET_RN_AA8 = { i := 2, l := 2 } := by
  bitw_rn_cost Spec.pat_BSET_RN_AA8

theorem cost_BNOT_RN_AA8 (op op2 : BitVec 16) (st st' : Cpu) (c : BitVec 8)
    (hp : Spec.Form.pat .BNOT_RN_AA8 op op2 0 0 0 = true) (h : bmodAbs .not_ 0x7100 0x6100 op op2 st = .ok c st')
    (hsfr : Spec.isSfr (getAddrAbs8 (op.setWidth 8)).toNat = false) :
    ChargedAt 2 .L 2 (getAddrAbs8 (op.setWidth 8)) 0 st' c ∧ Spec.Form.mix .BNOT_RN_AA8 = { i := 2, l := 2 } := by
  bitw_rn_cost Spec.pat_BNOT_RN_AA8

theorem cost_BCLR_RN_AA8 (op op2 : BitVec 16) (st st' : Cpu) (c : BitVec 8)
    (hp : Spec.Form.pat .BCLR_RN_AA8 op op2 0 0 0 = true) (h : bmodAbs .clr 0x7200 0x6200 op op2 st = .ok c st')
    (hsfr : Spec.isSfr (getAddrAbs8 (op.setWidth 8)).toNat = false) :
    ChargedAt 2 .L 2 (getAddrAbs8 (op.setWidth 8)) 0 st' c ∧ Spec.Form.mix .BCLR_RN_AA8 = { i := 2, l := 2 } := by
  bitw_rn_cost Spec.pat_BCLR_RN_AA8

theorem cost_BTST_RN_IND (op op2 : BitVec 16) (st st' : Cpu) (c : BitVec 8)
    (hp : Spec.Form.pat .BTST_RN_IND op op2 0 0 0 = true) (h : btstErn true op op2 st = .ok c st') :
    ChargedAt 2 .L 1 (getEr st.regs (nib op 3) &&& ADDRESS_MASK) 0 st' c ∧ Spec.Form.mix .BTST_RN_IND = { i := 2, l := 1 } := by
  btst_rn_cost Spec.pat_BTST_RN_IND

theorem cost_BTST_RN_AA8 (op op2 : BitVec 16) (st st' : Cpu) (c : BitVec 8)
    (hp : Spec.Form.pat .BTST_RN_AA8 op op2 0 0 0 = true) (h : btstAbs true op op2 st = .ok c st') :
    ChargedAt 2 .L 1 (getAddrAbs8 (op.setWidth 8)) 0 st' c ∧ Spec.Form.mix .BTST_RN_AA8 = { i := 2, l := 1 } := by
  btst_rn_cost Spec.pat_BTST_RN_AA8

end H8.Props.C20Y
