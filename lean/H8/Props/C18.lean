/-
  C18 — control-socket lines apply exactly once, in arrival order; outgoing messages are framed reversibly.

  About `Model/Run.lean` (the mirror of the message loop in `Cpu::run`, of `parse_u8` / `parse_ioport`
  and of `Socket::start_send_worker`):

  outgoing  * the one-pass `escape` is the two sequential `replace` calls of the code;
            * `unescape (escape m) = m` for every text m (any characters: newline, backslash, multi-byte);
            * an escaped message contains no newline, so a frame is exactly one newline-terminated line;
            * a whole stream of frames splits back into exactly the emitted messages, in emission order.
  incoming  * a poll applies its lines one by one in order (`applyBatch_cons`), a line that parses to
              nothing changes nothing and does not disturb its neighbours (`ignored_line_*`);
            * one poll over `a ++ b` = a poll over `a` followed by a poll over `b` (`applyBatch_append`);
            * the queue hands every line out once, in order (`takeBatch_partition`);
            * held guest (paused, no `cmd:start` among the lines): for EVERY plan of batch sizes the run
              ends in the same state, the one of a single poll over all lines (`held_partition_invariance`).
  While the guest executes, the instruction boundary at which a line takes effect depends on the batching
  by construction (lines are polled between instructions); for that case the statement "each line once,
  in order" is checked against the Spec on the real loop under planned partitions (harness mode `run`).
-/
import H8.Model.Run
namespace H8.Props.C18
open H8 H8.Run

/-! ## outgoing framing -/

theorem escape_eq_replaces (m : List Char) : escape m = replaceNewline (replaceBackslash m) := by
  induction m with
  | nil => rfl
  | cons c cs ih =>
    by_cases h1 : c = '\\'
    · subst h1
      simp [escape, replaceBackslash, replaceNewline, ih]
    · by_cases h2 : c = '\n'
      · subst h2
        simp [escape, replaceBackslash, replaceNewline, ih]
      · simp [escape, replaceBackslash, replaceNewline, ih, h1, h2]

theorem unescape_escape (m : List Char) : unescape (escape m) = m := by
  induction m with
  | nil => rfl
  | cons c cs ih =>
    by_cases h1 : c = '\\'
    · subst h1
      simp [escape, unescape, ih]
    · by_cases h2 : c = '\n'
      · subst h2
        simp [escape, unescape, ih]
      · simp only [escape, h1, h2, beq_iff_eq, if_false]
        rw [unescape]
        · rw [ih]
        all_goals (intros; simp_all)

theorem escape_no_newline (m : List Char) : '\n' ∉ escape m := by
  induction m with
  | nil => simp [escape]
  | cons c cs ih =>
    by_cases h1 : c = '\\'
    · subst h1; simp [escape, ih]
    · by_cases h2 : c = '\n'
      · subst h2; simp [escape, ih]
      · simp [escape, h1, h2, ih]; exact fun h => h2 h.symm

/-- split a character stream at newlines: the text before each newline (what is left after the last
    newline is returned separately) -/
def splitLines : List Char → List Char → List (List Char) × List Char
  | [], cur => ([], cur.reverse)
  | c :: cs, cur =>
    if c == '\n' then
      let (ls, rest) := splitLines cs []
      (cur.reverse :: ls, rest)
    else splitLines cs (c :: cur)

theorem splitLines_line (a : List Char) (h : '\n' ∉ a) (rest cur : List Char) :
    splitLines (a ++ '\n' :: rest) cur =
      ((cur.reverse ++ a) :: (splitLines rest []).1, (splitLines rest []).2) := by
  induction a generalizing cur with
  | nil => simp [splitLines]
  | cons c cs ih =>
    have hc : c ≠ '\n' := fun e => h (by simp [e])
    have hcs : '\n' ∉ cs := fun e => h (by simp [e])
    simp only [List.cons_append, splitLines, beq_iff_eq, hc, if_false]
    rw [ih hcs]
    simp

/-- the byte stream the send worker produces for a list of messages -/
def wire (ms : List (List Char)) : List Char := (ms.map frame).flatten

/-- **Every emitted message arrives as exactly one newline-terminated line, in emission order, and
    unescaping each line gives back the original text** — for every list of messages over any characters. -/
theorem wire_roundtrip (ms : List (List Char)) :
    (splitLines (wire ms) []).1.map unescape = ms ∧ (splitLines (wire ms) []).2 = [] := by
  induction ms with
  | nil => simp [wire, splitLines]
  | cons m rest ih =>
    have : wire (m :: rest) = escape m ++ '\n' :: wire rest := by simp [wire, frame]
    rw [this, splitLines_line _ (escape_no_newline m)]
    simp [unescape_escape, ih.1, ih.2]

/-! ## incoming lines -/

theorem applyBatch_cons (s : St) (l : List Char) (ls : List (List Char)) :
    applyBatch s (l :: ls) =
      match applyCtl s (parseLine l) with
      | (s', .running) => applyBatch s' ls
      | r => r := by
  rw [applyBatch]
  rcases applyCtl s (parseLine l) with ⟨s1, e⟩
  cases e <;> rfl

/-- one poll over `a ++ b` is a poll over `a` followed (if the run goes on) by a poll over `b` -/
theorem applyBatch_append (s : St) (a b : List (List Char)) :
    applyBatch s (a ++ b) =
      match applyBatch s a with
      | (s', .running) => applyBatch s' b
      | r => r := by
  induction a generalizing s with
  | nil => simp [applyBatch]
  | cons l ls ih =>
    simp only [List.cons_append, applyBatch]
    rcases h : applyCtl s (parseLine l) with ⟨s1, e⟩
    cases e <;> simp [ih]

/-- a line that means nothing changes nothing … -/
theorem ignored_line_head (s : St) (l : List Char) (ls : List (List Char)) (h : parseLine l = .ignore) :
    applyBatch s (l :: ls) = applyBatch s ls := by
  simp [applyBatch, h, applyCtl]

/-- … wherever it stands in the sequence: the other lines act exactly as if it were absent -/
theorem ignored_line_anywhere (s : St) (a b : List (List Char)) (l : List Char) (h : parseLine l = .ignore) :
    applyBatch s (a ++ l :: b) = applyBatch s (a ++ b) := by
  rw [applyBatch_append, applyBatch_append]
  rcases applyBatch s a with ⟨s1, e⟩
  cases e <;> simp [ignored_line_head _ _ _ h]

/-- the queue hands out every line exactly once, in order: delivered batch ++ what stays queued = the queue -/
theorem takeBatch_partition (q : List (List Char)) (plan : List Nat) :
    (takeBatch q plan).1 ++ (takeBatch q plan).2.1 = q := by
  cases plan with
  | nil => simp [takeBatch]
  | cons n rest => simp [takeBatch]

/-- no `cmd:start` among the lines -/
def NoStart (q : List (List Char)) : Prop := ∀ l, l ∈ q → parseLine l ≠ .start

theorem applyCtl_keeps_paused (s : St) (c : Ctl) (hp : s.paused = true) (hc : c ≠ .start) :
    (applyCtl s c).1.paused = true := by
  cases c <;> simp_all [applyCtl]
  all_goals (split <;> simp_all)

theorem applyBatch_keeps_paused (s : St) (q : List (List Char)) (hp : s.paused = true) (hq : NoStart q) :
    (applyBatch s q).1.paused = true := by
  induction q generalizing s with
  | nil => simpa [applyBatch]
  | cons l ls ih =>
    rw [applyBatch]
    have h1 := applyCtl_keeps_paused s (parseLine l) hp (hq l (by simp))
    rcases h : applyCtl s (parseLine l) with ⟨s1, e⟩
    rw [h] at h1
    cases e
    · exact ih s1 h1 (fun l' hl' => hq l' (by simp [hl']))
    all_goals simpa using h1

/-- **Held guest: every partition of the lines into polling batches gives the same result** — the one of
    a single poll over all lines.  (If the run ends at all: without a `cmd:stop` a held guest waits forever.) -/
theorem held_partition_invariance : ∀ (fuel : Nat) (s : St) (q : List (List Char)) (plan : List Nat)
    (s' : St) (e : End) (rest : List (List Char)),
    s.paused = true → NoStart q → loop fuel s q plan = some (s', e, rest) →
    applyBatch s q = (s', e) ∧ e ≠ .running := by
  intro fuel
  induction fuel with
  | zero => intro s q plan s' e rest _ _ h; simp [loop] at h
  | succ n ih =>
    intro s q plan s' e rest hp hq h
    have hpart := takeBatch_partition q plan
    rcases htb : takeBatch q plan with ⟨b, q', plan'⟩
    rw [htb] at hpart
    simp only at hpart
    have hb : NoStart b := fun l hl => hq l (by rw [← hpart]; simp [hl])
    have hq' : NoStart q' := fun l hl => hq l (by rw [← hpart]; simp [hl])
    simp only [loop, htb] at h
    have hkeep := applyBatch_keeps_paused s b hp hb
    rcases hab : applyBatch s b with ⟨s1, e1⟩
    rw [hab] at hkeep
    have happ := applyBatch_append s b q'
    rw [hpart, hab] at happ
    cases e1 with
    | running =>
      simp only [iteration, hab] at h
      simp only at hkeep
      simp only [hkeep, if_true] at h
      have := ih s1 q' plan' s' e rest hkeep hq' h
      rw [happ]; exact this
    | stopped => simp only [iteration, hab] at h; simp at h; rw [happ]; simp [← h.1, ← h.2.1]
    | finished => simp only [iteration, hab] at h; simp at h; rw [happ]; simp [← h.1, ← h.2.1]
    | error => simp only [iteration, hab] at h; simp at h; rw [happ]; simp [← h.1, ← h.2.1]
    | panic => simp only [iteration, hab] at h; simp at h; rw [happ]; simp [← h.1, ← h.2.1]

/-- hence any two plans agree -/
theorem held_two_plans (f1 f2 : Nat) (s : St) (q : List (List Char)) (p1 p2 : List Nat)
    (r1 r2 : St × End × List (List Char)) (hp : s.paused = true) (hq : NoStart q)
    (h1 : loop f1 s q p1 = some r1) (h2 : loop f2 s q p2 = some r2) :
    (r1.1, r1.2.1) = (r2.1, r2.2.1) := by
  obtain ⟨a1, b1, c1⟩ := r1
  obtain ⟨a2, b2, c2⟩ := r2
  have e1 := (held_partition_invariance f1 s q p1 a1 b1 c1 hp hq h1).1
  have e2 := (held_partition_invariance f2 s q p2 a2 b2 c2 hp hq h2).1
  simp only
  rw [← e1, ← e2]

/-! ## numbers in lines: `from_str_radix(…, 16)` as modelled reads back every value below the bound -/

def hexChr (d : Nat) : Char := if d < 10 then Char.ofNat (48 + d) else Char.ofNat (87 + d)

theorem hexDigit_hexChr_fin : ∀ d : Fin 16, hexDigit (hexChr d.val) = some d.val := by decide

theorem hexDigit_hexChr (d : Nat) (h : d < 16) : hexDigit (hexChr d) = some d := hexDigit_hexChr_fin ⟨d, h⟩

theorem hexChr_not_sign_fin : ∀ d : Fin 16, hexChr d.val ≠ '+' ∧ hexChr d.val ≠ '-' := by decide

/-- exactly k hex digits of n (leading zeros), most significant first -/
def hexStrK : Nat → Nat → List Char
  | 0, _ => []
  | k + 1, n => hexStrK k (n / 16) ++ [hexChr (n % 16)]

theorem hexDigits_hexStrK (bound : Nat) : ∀ (k n acc : Nat) (rest : List Char),
    n < 16 ^ k → acc * 16 ^ k + n < bound →
    hexDigits bound (hexStrK k n ++ rest) acc = hexDigits bound rest (acc * 16 ^ k + n) := by
  intro k
  induction k with
  | zero => intro n acc rest hn hb; simp at hn; subst hn; simp [hexStrK]
  | succ k ih =>
    intro n acc rest hn hb
    have h16 : 16 ^ (k + 1) = 16 ^ k * 16 := by rw [Nat.pow_succ]
    have hdiv : n / 16 < 16 ^ k := by rw [h16] at hn; omega
    have hmod : n % 16 < 16 := Nat.mod_lt _ (by decide)
    simp only [hexStrK, List.append_assoc, List.singleton_append]
    have hb' : acc * 16 ^ k + n / 16 < bound := by
      rw [h16] at hb
      have : acc * (16 ^ k * 16) = (acc * 16 ^ k) * 16 := by rw [Nat.mul_assoc]
      omega
    rw [ih (n / 16) acc (hexChr (n % 16) :: rest) hdiv hb']
    simp only [hexDigits, hexDigit_hexChr _ hmod]
    have e : (acc * 16 ^ k + n / 16) * 16 + n % 16 = acc * 16 ^ (k + 1) + n := by
      rw [h16, Nat.add_mul, Nat.mul_assoc]; omega
    rw [e, if_pos hb]

theorem hexStrK_head (k n : Nat) : ∃ d t, d < 16 ∧ hexStrK (k + 1) n = hexChr d :: t := by
  induction k generalizing n with
  | zero => exact ⟨n % 16, [], Nat.mod_lt _ (by decide), by simp [hexStrK]⟩
  | succ k ih =>
    obtain ⟨d, t, hd, ht⟩ := ih (n / 16)
    exact ⟨d, t ++ [hexChr (n % 16)], hd, by rw [hexStrK, ht]; simp⟩

/-- **every address / value below the bound, written with any number k ≥ 1 of hex digits that holds it (leading zeros
    included), is parsed back to itself** — e.g. all 2^32 addresses and all 256 byte values of `u8:` lines -/
theorem fromStrRadix16_hexStrK (bound k n : Nat) (hn : n < 16 ^ (k + 1)) (hb : n < bound) :
    fromStrRadix16 bound (hexStrK (k + 1) n) = some n := by
  obtain ⟨d, t, hd, ht⟩ := hexStrK_head k n
  have hs := hexChr_not_sign_fin ⟨d, hd⟩
  have hmain := hexDigits_hexStrK bound (k + 1) n 0 [] hn (by simpa using hb)
  simp only [List.append_nil, Nat.zero_mul, Nat.zero_add] at hmain
  have hres : hexDigits bound [] n = some n := by simp [hexDigits]
  rw [ht] at hmain ⊢
  unfold fromStrRadix16
  split
  · simp at *
  · rename_i h; injection h with h1 h2; exact absurd h1 hs.1
  · rename_i h; injection h with h1 h2; exact absurd h1 hs.2
  · rename_i cs h; injection h with h1 h2; exact absurd h1 hs.1
  · rw [hmain, hres]

example : fromStrRadix16 (2 ^ 32) (hexStrK 6 0xffc000) = some 0xffc000 := fromStrRadix16_hexStrK _ 5 _ (by decide) (by decide)

/-! ## what lines mean (examples of the parser on the statement's line kinds; evaluated by the kernel) -/

example : parseLine "cmd:pause".toList = .pause := by decide
example : parseLine "cmd:start".toList = .start := by decide
example : parseLine "cmd:stop".toList = .stop := by decide
example : parseLine "u8:ffc000:1f".toList = .u8 0xffc000 0x1f := by decide
example : parseLine "u8:+FFC000:01".toList = .u8 0xffc000 1 := by decide
example : parseLine "ioport:b:80".toList = .ioport 11 0x80 := by decide
example : parseLine "cmd".toList = .ignore := by decide
example : parseLine "cmd:stop:".toList = .ignore := by decide
example : parseLine "cmd:halt".toList = .ignore := by decide
example : parseLine "u8:ffc000:100".toList = .ignore := by decide
example : parseLine "u8:100000000:1".toList = .ignore := by decide
example : parseLine "u8::1".toList = .ignore := by decide
example : parseLine "ioport:1:2:3".toList = .ignore := by decide
example : parseLine "".toList = .ignore := by decide

/-- non-vacuity of the framing theorem: a message with both special characters -/
example : frame "a\\b\nc".toList = "a\\\\b\\nc\n".toList := by decide

end H8.Props.C18
