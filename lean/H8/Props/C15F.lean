/-
  C15, the instructions that fetch further words — "a panic can only come from an instruction fetch at an unmapped
  address", for the whole of `Cpu::exec` and `step` as modelled.

  `Fetchable pc`: both bytes of the instruction word at `pc` lie in mapped memory (a property of the address alone:
  the address map is static).  `PcOK n s`: the next `n` instruction words from `s.pc` are fetchable.
  `NPF n m`: started in a state whose next `n` words are fetchable, `m` does not panic.

  Every handler of the model that calls `fetch` is `NPF 3` (none reads more than three further words), every other
  handler is `NP` (C15N); `runLeaf` adds at most one prefix word per level of the generated dispatch.  Hence
  `exec_npf` / `step_npf`: **if the instruction words at PC (ten words: more than the longest instruction) are in
  mapped memory, neither `exec` nor a whole step can panic, whatever the opcode words, registers and memory are** —
  the unwrap in `fetch()` (known finding C15-FETCH-PANIC) is the only modelled panic site and it needs an unmapped PC.
-/
import H8.Props.C15
import H8.Props.C15N
set_option linter.unusedVariables false
namespace H8.Props.C15F
open H8 H8.Lemmas H8.Props H8.Props.C15N

def Fetchable (pc : BitVec 32) : Prop :=
  Spec.accessible (pc &&& ~~~1#32).toNat ∧ Spec.accessible ((pc &&& ~~~1#32) + 1).toNat

def PcOK (n : Nat) (s : Cpu) : Prop := ∀ j, j < n → Fetchable (s.pc + BitVec.ofNat 32 (2 * j))

def NPF (n : Nat) {α : Type} (m : M α) : Prop := ∀ s, PcOK n s → m s ≠ .panic

theorem NPF_of_NP {α} {m : M α} (n : Nat) (h : NP m) : NPF n m := fun s _ => h s

theorem NPF_mono {α} {m : M α} {n k : Nat} (h : NPF n m) (hk : n ≤ k) : NPF k m :=
  fun s hs => h s (fun j hj => hs j (Nat.lt_of_lt_of_le hj hk))

theorem NPF_ite {α} {c : Prop} [Decidable c] {n : Nat} {a b : M α} (ha : NPF n a) (hb : NPF n b) :
    NPF n (if c then a else b) := by
  split <;> assumption

/-- a fetch from a fetchable PC succeeds and moves PC by exactly one word -/
theorem fetch_ok (s : Cpu) (h : Fetchable s.pc) :
    ∃ v, fetch s = .ok v { s with opc := s.pc &&& ~~~1#32, pc := s.pc + 2 } := by
  obtain ⟨v1, e1⟩ := (C09.read_ok_iff s.bus _).mpr h.1
  obtain ⟨v2, e2⟩ := (C09.read_ok_iff s.bus _).mpr h.2
  unfold fetch
  simp only [e1, e2]
  exact ⟨_, rfl⟩

theorem pcOK_shift (n : Nat) (s : Cpu) (opc : BitVec 32) (h : PcOK (n + 1) s) :
    PcOK n { s with opc := opc, pc := s.pc + 2 } := by
  intro j hj
  have := h (j + 1) (by omega)
  have e : s.pc + BitVec.ofNat 32 (2 * (j + 1)) = s.pc + 2 + BitVec.ofNat 32 (2 * j) := by
    have : 2 * (j + 1) = 2 + 2 * j := by omega
    rw [this, BitVec.ofNat_add, ← BitVec.add_assoc]
    rfl
  rw [e] at this
  exact this

/-- the fetch rule: one more fetchable word pays for one `fetch` -/
theorem NPF_fetch_bind {β} {n : Nat} {f : BitVec 16 → M β} (hf : ∀ v, NPF n (f v)) : NPF (n + 1) (fetch >>= f) := by
  intro s hs
  have h0 : Fetchable s.pc := by
    have := hs 0 (by omega)
    simpa using this
  obtain ⟨v, hv⟩ := fetch_ok s h0
  rw [bind_ok, hv]
  exact hf v _ (pcOK_shift n s _ hs)

/-- computations that only look at the state (or fail): binding them in front changes nothing -/
def RO {α : Type} (m : M α) : Prop := ∀ s, m s = .err ∨ ∃ v, m s = .ok v s

theorem NPF_ro_bind {α β} {n : Nat} {m : M α} {f : α → M β} (hm : RO m) (hf : ∀ a, NPF n (f a)) : NPF n (m >>= f) := by
  intro s hs
  rw [bind_ok]
  rcases hm s with h | ⟨v, h⟩
  · rw [h]; simp
  · rw [h]; exact hf v s hs

theorem RO_readRnL (f : BitVec 8) : RO (readRnL f) := fun s => by
  unfold readRnL; split
  · exact Or.inr ⟨_, rfl⟩
  · exact Or.inl rfl
theorem RO_get : RO M.get := fun s => Or.inr ⟨s, rfl⟩
theorem RO_pure {α} (a : α) : RO (pure a : M α) := fun s => Or.inr ⟨a, rfl⟩

theorem NPF_fetch32_bind {β} {n : Nat} {f : BitVec 32 → M β} (hf : ∀ v, NPF n (f v)) :
    NPF (n + 2) (fetch32 >>= f) := by
  have e : (fetch32 >>= f) = (fetch >>= fun hi => fetch >>= fun lo => f ((hi.setWidth 32 <<< 16) ||| lo.setWidth 32)) := by
    funext s
    simp only [fetch32, bind_ok, pure_ok]
    cases fetch s with
    | ok a s1 =>
      simp only
      cases fetch s1 <;> rfl
    | err => rfl
    | panic => rfl
  rw [e]
  exact NPF_fetch_bind (fun hi => NPF_fetch_bind (fun lo => hf _))

-- closes `NPF n (handler …)` after unfolding: fetches are paid by the index, everything behind them is `NP`
macro "npf_step" : tactic => `(tactic| first
  | (apply NPF_of_NP; np_tac; done)
  | apply NPF_fetch_bind
  | apply NPF_fetch32_bind
  | (apply NPF_ro_bind (RO_readRnL _))
  | (apply NPF_ro_bind RO_get)
  | apply NPF_ite
  | intro _
  | dsimp only
  | split)

macro "npf_tac" : tactic => `(tactic| repeat' npf_step)

/-! ### every handler that fetches (Model/Cpu.lean, in source order) -/

theorem NPF_movImm (sz : Sz) (op : BitVec 16) : NPF 3 (movImm sz op) := by
  cases sz <;> simp only [movImm]
  · apply NPF_of_NP; np_tac
  · exact NPF_mono (n := 1) (NPF_fetch_bind (fun v => by apply NPF_of_NP; np_tac)) (by omega)
  · exact NPF_mono (n := 2) (NPF_fetch32_bind (fun v => by apply NPF_of_NP; np_tac)) (by omega)
theorem NPF_movDisp16 (sz : Sz) (w : BitVec 16) : NPF 3 (movDisp16 sz w) := by
  unfold movDisp16
  exact NPF_mono (n := 1) (by npf_tac) (by omega)
theorem NPF_movDisp24BW (sz : Sz) (op op2 : BitVec 16) : NPF 3 (movDisp24BW sz op op2) := by
  unfold movDisp24BW
  exact NPF_mono (n := 2) (by npf_tac) (by omega)
theorem NPF_movLDisp24 (op2 : BitVec 16) : NPF 3 (movLDisp24 op2) := by
  unfold movLDisp24
  exact NPF_mono (n := 3) (by npf_tac) (by omega)
theorem NPF_movAbs16 (sz : Sz) (w : BitVec 16) : NPF 3 (movAbs16 sz w) := by
  unfold movAbs16
  exact NPF_mono (n := 1) (by npf_tac) (by omega)
theorem NPF_movAbs24 (sz : Sz) (w : BitVec 16) : NPF 3 (movAbs24 sz w) := by
  unfold movAbs24
  exact NPF_mono (n := 2) (by npf_tac) (by omega)
theorem NPF_addWImm (op : BitVec 16) : NPF 3 (addWImm op) := by
  unfold addWImm
  exact NPF_mono (n := 1) (by npf_tac) (by omega)
theorem NPF_addLImm (op : BitVec 16) : NPF 3 (addLImm op) := by
  unfold addLImm
  exact NPF_mono (n := 2) (by npf_tac) (by omega)
theorem NPF_subWImm (op : BitVec 16) : NPF 3 (subWImm op) := by
  unfold subWImm
  exact NPF_mono (n := 1) (by npf_tac) (by omega)
theorem NPF_subLImm (op : BitVec 16) : NPF 3 (subLImm op) := by
  unfold subLImm
  exact NPF_mono (n := 2) (by npf_tac) (by omega)
theorem NPF_cmpWImm (op : BitVec 16) : NPF 3 (cmpWImm op) := by
  unfold cmpWImm
  exact NPF_mono (n := 1) (by npf_tac) (by omega)
theorem NPF_cmpLImm (op : BitVec 16) : NPF 3 (cmpLImm op) := by
  unfold cmpLImm
  exact NPF_mono (n := 2) (by npf_tac) (by omega)
theorem NPF_logicWImm (o : LOp) (op : BitVec 16) : NPF 3 (logicWImm o op) := by
  unfold logicWImm
  exact NPF_mono (n := 1) (by npf_tac) (by omega)
theorem NPF_logicLImm (o : LOp) (op : BitVec 16) : NPF 3 (logicLImm o op) := by
  unfold logicLImm
  exact NPF_mono (n := 2) (by npf_tac) (by omega)
theorem NPF_bcc16 (c : BitVec 4) : NPF 3 (bcc16 c) := by
  unfold bcc16
  exact NPF_mono (n := 1) (by npf_tac) (by omega)
theorem NPF_bsrDisp16 (op : BitVec 16) : NPF 3 (bsrDisp16 op) := by
  unfold bsrDisp16
  exact NPF_mono (n := 1) (by npf_tac) (by omega)
theorem NPF_jmpAbs (op : BitVec 16) : NPF 3 (jmpAbs op) := by
  unfold jmpAbs
  exact NPF_mono (n := 1) (by npf_tac) (by omega)
theorem NPF_jsrAbs (op : BitVec 16) : NPF 3 (jsrAbs op) := by
  unfold jsrAbs
  exact NPF_mono (n := 1) (by npf_tac) (by omega)
theorem NPF_stcWDisp16 (op2 : BitVec 16) : NPF 3 (stcWDisp16 op2) := by
  unfold stcWDisp16
  exact NPF_mono (n := 1) (by npf_tac) (by omega)
theorem NPF_stcWDisp24 (op2 : BitVec 16) : NPF 3 (stcWDisp24 op2) := by
  unfold stcWDisp24
  refine NPF_fetch_bind (fun op3 => ?_)
  refine NPF_ite (NPF_of_NP _ NP_fail) ?_
  exact NPF_fetch32_bind (fun disp => by apply NPF_of_NP; np_tac)
theorem NPF_stcAbs16  : NPF 3 (stcAbs16 ) := by
  unfold stcAbs16
  exact NPF_mono (n := 1) (by npf_tac) (by omega)
theorem NPF_stcAbs24  : NPF 3 (stcAbs24 ) := by
  unfold stcAbs24
  exact NPF_mono (n := 2) (by npf_tac) (by omega)

/-! ### lifted to the dispatch -/

macro "npf_lem" : tactic => `(tactic| first
  | with_reducible exact NPF_movImm _ _ | with_reducible exact NPF_movDisp16 _ _ | with_reducible exact NPF_movDisp24BW _ _ _ | with_reducible exact NPF_movLDisp24 _
  | with_reducible exact NPF_movAbs16 _ _ | with_reducible exact NPF_movAbs24 _ _ | with_reducible exact NPF_addWImm _ | with_reducible exact NPF_addLImm _
  | with_reducible exact NPF_subWImm _ | with_reducible exact NPF_subLImm _ | with_reducible exact NPF_cmpWImm _ | with_reducible exact NPF_cmpLImm _
  | with_reducible exact NPF_logicWImm _ _ | with_reducible exact NPF_logicLImm _ _ | with_reducible exact NPF_bcc16 _ | with_reducible exact NPF_bsrDisp16 _
  | with_reducible exact NPF_jmpAbs _ | with_reducible exact NPF_jsrAbs _ | with_reducible exact NPF_stcWDisp16 _ | with_reducible exact NPF_stcWDisp24 _
  | with_reducible exact NPF_stcAbs16 | with_reducible exact NPF_stcAbs24)

/-- **the handler behind every leaf of the generated decision tree is `NPF 3`**: it cannot panic when the next three
    instruction words are in mapped memory (the non-fetching ones cannot panic at all, `C15N.leaf_no_panic`) -/
theorem leaf_npf (l : Gen.Leaf) (op op2 : BitVec 16) (h : M (BitVec 8))
    (hl : leafHandler l op op2 = some h) : NPF 3 h := by
  by_cases hnf : fetching l = false
  · exact NPF_of_NP 3 (leaf_no_panic l op op2 h hl hnf)
  · cases l <;> simp only [leafHandler, Option.some.injEq, reduceCtorEq] at hl <;>
      first
      | (exact absurd rfl hnf)
      | (subst hl; npf_lem)
      | (cases hl; npf_lem)

/-- the dispatch adds at most one prefix word per level -/
theorem runLeaf_npf : ∀ (fuel : Nat) (l : Gen.Leaf) (op op2 : BitVec 16), NPF (3 + fuel) (runLeaf fuel l op op2)
  | 0, l, op, op2 => by
    unfold runLeaf
    exact NPF_of_NP _ NP_fail
  | fuel + 1, l, op, op2 => by
    unfold runLeaf
    split
    · rename_i h hl
      exact NPF_mono (leaf_npf l op op2 h hl) (by omega)
    · have ih := runLeaf_npf fuel
      split <;>
        first
        | exact NPF_mono (ih _ _ _) (by omega)
        | exact NPF_fetch_bind (fun w => ih _ _ _)
        | exact NPF_of_NP _ NP_fail

/-- **`Cpu::exec` as modelled cannot panic when the nine instruction words at PC are in mapped memory** — whatever the
    first word, the registers, CCR and the contents of memory -/
theorem exec_npf (op : BitVec 16) : NPF 9 (exec op) := runLeaf_npf 6 _ op 0

/-- **a whole step (fetch + exec) cannot panic when the ten instruction words at PC are in mapped memory** -/
theorem step_npf : NPF 10 step := by
  unfold step
  exact NPF_fetch_bind (fun op => exec_npf op)

/-- in particular: a program that runs in on-chip RAM or DRAM, at least twenty bytes below the end of the region,
    cannot crash the emulator with any instruction -/
theorem step_no_panic_in_ram (s : Cpu) (h : ∀ j, j < 10 → Fetchable (s.pc + BitVec.ofNat 32 (2 * j))) :
    step s ≠ .panic := step_npf s h

-- non-vacuity: ten fetchable words at H'FFC000
example : ∀ j, j < 10 → Fetchable (0xffc000#32 + BitVec.ofNat 32 (2 * j)) := by
  intro j hj
  have : j = 0 ∨ j = 1 ∨ j = 2 ∨ j = 3 ∨ j = 4 ∨ j = 5 ∨ j = 6 ∨ j = 7 ∨ j = 8 ∨ j = 9 := by omega
  rcases this with h | h | h | h | h | h | h | h | h | h <;> subst h <;> (unfold Fetchable; decide)

end H8.Props.C15F
