/-
  C06 — Exception entry and RTE save and restore the interrupted context exactly.
  Value level: the frame word built by TRAPA / interrupt entry and taken apart by RTE; memory level:
  a long written to the frame reads back unchanged and disturbs nothing else (`long_roundtrip`).
-/
import H8.Props.Common
import H8.Lemmas.MemBE
namespace H8.Props.C06
open H8 H8.Lemmas H8.Props

/-- frame = CCR ‖ PC24: RTE's split gives back CCR (all eight bits) and the 24-bit PC -/
theorem frame_split (ccr : BitVec 8) (pc : BitVec 32) (h : BitVec.ule pc 0xffffff#32 = true) :
    let frame := (ccr.setWidth 32 <<< 24) ||| pc
    (frame >>> 24).setWidth 8 = ccr ∧ frame &&& ADDRESS_MASK = pc := by
  simp only [ADDRESS_MASK]; constructor <;> bv_decide

/-- the Spec's frame (CCR ‖ low 24 bits of PC) is the model's when PC is a 24-bit address -/
theorem frame_eq_spec (ccr : BitVec 8) (pc : BitVec 32) (h : BitVec.ule pc 0xffffff#32 = true) :
    (ccr.setWidth 32 <<< 24) ||| pc = (ccr.setWidth 32 <<< 24) ||| Spec.low24 pc := by
  simp only [Spec.low24]; bv_decide

/-- entry sets I and changes no other flag -/
theorem entry_sets_I (ccr : BitVec 8) : changeCcrV ccr cI true = ccr ||| 0x80#8 ∧
    Spec.setFlag ccr bI true = ccr ||| 0x80#8 := by
  simp only [changeCcrV, Spec.setFlag]; constructor <;> bv_decide

/-- TRAPA #n uses vector 8+n: address H'20 + 4n; interrupt v uses 4·v (v ≤ 63: no 8-bit overflow) -/
theorem trapa_vector (n : BitVec 2) : (0x20#8 + 4 * (n.setWidth 8)).toNat = 4 * (8 + n.toNat) := by
  have : n = 0 ∨ n = 1 ∨ n = 2 ∨ n = 3 := by bv_decide
  rcases this with h | h | h | h <;> subst h <;> decide

theorem interrupt_vector (v : BitVec 8) (h : BitVec.ule v 63#8 = true) :
    ((4#8 * v).setWidth 32 : BitVec 32) = (v.setWidth 32) * 4#32 := by
  bv_decide

/-- SP after entry + RTE: (SP − 4) + 4 = SP on the full 32-bit register, every other register kept -/
theorem sp_roundtrip (regs : Regs) :
    setEr (setEr regs 7 (getEr regs 7 - 4)) 7 (getEr (setEr regs 7 (getEr regs 7 - 4)) 7 + 4) = regs := by
  simp only [getEr, setEr, shOf]; bv_decide

/-- The frame written by entry is what RTE reads back, with registers, CCR, PC and all other memory
    untouched by the store (instance of `long_roundtrip` for plain-storage stack addresses). -/
theorem frame_memory_roundtrip (st : Cpu) (a : BitVec 32) (frame : BitVec 32)
    (h0 : Spec.plain a.toNat) (h1 : Spec.plain (a + 1).toNat) (h2 : Spec.plain (a + 2).toNat) (h3 : Spec.plain (a + 3).toNat) :
    ∃ st', writeAbs24L a frame st = .ok () st' ∧ readAbs24L a st' = .ok frame st' ∧
      st'.regs = st.regs ∧ st'.ccr = st.ccr ∧ st'.pc = st.pc ∧
      (∀ x, x ≠ a → x ≠ a + 1 → x ≠ a + 2 → x ≠ a + 3 → st'.bus.read x = st.bus.read x) :=
  long_roundtrip st a frame h0 h1 h2 h3

-- non-vacuity: a frame in on-chip RAM
example : Spec.plain 0xffff00 ∧ Spec.plain 0xffff03 := by decide

end H8.Props.C06
