/-
  C05 at handler level, with memory — subroutine call and return.

  `push_long`: what the model's `@-SP` long store does (SP − 4 on all 32 bits, the long readable at the new SP,
  nothing but the four frame bytes changes).  `bsr8_call` / `jsr_reg_call`: the call handlers = push of the
  address of the following instruction, then the jump (BSR: PC + sign-extended displacement; JSR @ERn: the low
  24 bits of ERn *after* the push, so JSR @ER7 jumps to SP − 4).  `rts_return`: RTS pops a long, PC := its low
  24 bits, SP + 4.  `bsr8_rts_roundtrip` / `jsr_reg_rts_roundtrip`: a call followed by RTS is back at the
  instruction after the call with every register (SP on all 32 bits) and CCR as before and no memory changed
  but the frame — for every register file, CCR, 24-bit PC and memory content with the frame in plain storage.
-/
import H8.Props.C05
import H8.Props.C06H
set_option linter.unusedSimpArgs false
namespace H8.Props.C05H
open H8 H8.Lemmas H8.Props H8.Props.C06H

/-- the frame address of a push from the register file `r` -/
abbrev frameAddr (r : Regs) : BitVec 32 := (getEr r 7 - 4) &&& ADDRESS_MASK

/-- `@-SP` long store -/
theorem push_long (st s1 : Cpu) (v : BitVec 32)
    (h : writeDecErn .L 7 v st = .ok () s1)
    (h0 : Spec.plain (frameAddr st.regs).toNat) (h1 : Spec.plain (frameAddr st.regs + 1).toNat)
    (h2 : Spec.plain (frameAddr st.regs + 2).toNat) (h3 : Spec.plain (frameAddr st.regs + 3).toNat) :
    s1 = { st with regs := setEr st.regs 7 (getEr st.regs 7 - 4), bus := s1.bus } ∧
    readAbs24L (frameAddr st.regs) s1 = .ok v s1 ∧
    (∀ x, x ≠ frameAddr st.regs → x ≠ frameAddr st.regs + 1 → x ≠ frameAddr st.regs + 2 →
        x ≠ frameAddr st.regs + 3 → s1.bus.read x = st.bus.read x) := by
  obtain ⟨s0, hw, hr, hg, hc, hp, ho⟩ := long_roundtrip st (frameAddr st.regs) v h0 h1 h2 h3
  have hob := writeAbs24L_only_bus _ _ _ _ hw
  simp only [writeDecErn, bind_ok, writeMem, readRnL_ok _ _ seven_ok, Sz.bytes] at h
  simp only [frameAddr] at hw
  simp only [hw, writeRnL_ok _ _ _ seven_ok, Res.ok.injEq, true_and] at h
  subst h
  refine ⟨?_, ?_, ?_⟩
  · rw [hob]
  · exact (readAbs24L_ok _ _ _ _ hr).2 _ (by simp)
  · intro x x0 x1 x2 x3
    simpa using ho x x0 x1 x2 x3

-- `h : (match costI … with | ok c1 s1 => match calcStateWithAddr … s1 with …) = ok cost st'` ⊢ `st' = <that state>`
set_option hygiene false in
local macro "cost_IK" : tactic => `(tactic|
  (split at h
   · rename_i c1 sa hc1; have := costI_state hc1; subst this
     split at h
     · rename_i c2 sb hc2; have := calcStateWithAddr_state hc2; subst this; injection h with _ h; exact h.symm
     · simp at h
     · simp at h
   · simp at h
   · simp at h))

/-- **BSR d:8**: the address of the next instruction is pushed, PC := that address + sign-extended displacement -/
theorem bsr8_call (op : BitVec 16) (st st' : Cpu) (cost : BitVec 8)
    (h : bsrDisp8 op st = .ok cost st')
    (h0 : Spec.plain (frameAddr st.regs).toNat) (h1 : Spec.plain (frameAddr st.regs + 1).toNat)
    (h2 : Spec.plain (frameAddr st.regs + 2).toNat) (h3 : Spec.plain (frameAddr st.regs + 3).toNat) :
    st' = { st with regs := setEr st.regs 7 (getEr st.regs 7 - 4), pc := st.pc + Spec.sx8 (op.setWidth 8), bus := st'.bus } ∧
    readAbs24L (frameAddr st.regs) st' = .ok st.pc st' ∧
    (∀ x, x ≠ frameAddr st.regs → x ≠ frameAddr st.regs + 1 → x ≠ frameAddr st.regs + 2 →
        x ≠ frameAddr st.regs + 3 → st'.bus.read x = st.bus.read x) := by
  simp only [bsrDisp8, bind_ok, readRnL_ok _ _ seven_ok, get_ok] at h
  split at h
  case h_2 => simp at h
  case h_3 => simp at h
  rename_i u s1 hpush
  obtain ⟨hs1, hfr, hoth⟩ := push_long st s1 st.pc hpush h0 h1 h2 h3
  simp only [modify_ok, pure_ok] at h
  have hs : st' = { s1 with pc := s1.pc + (op.setWidth 8).signExtend 32 } := by cost_IK
  subst hs
  refine ⟨?_, ?_, ?_⟩
  · rw [hs1]; simp [Spec.sx8]
  · exact (readAbs24L_ok _ _ _ _ hfr).2 _ (by simp)
  · intro x x0 x1 x2 x3
    simpa using hoth x x0 x1 x2 x3

/-- **JSR @ERn**: the address of the next instruction is pushed, then PC := low 24 bits of ERn as it is after the
    push (for n = 7 that is SP − 4: the manual's sequential operation) -/
theorem jsr_reg_call (op : BitVec 16) (st st' : Cpu) (cost : BitVec 8)
    (h : jsrErn op st = .ok cost st')
    (h0 : Spec.plain (frameAddr st.regs).toNat) (h1 : Spec.plain (frameAddr st.regs + 1).toNat)
    (h2 : Spec.plain (frameAddr st.regs + 2).toNat) (h3 : Spec.plain (frameAddr st.regs + 3).toNat)
    (hn : (nib op 3).ule 7#8 = true) :
    st' = { st with regs := setEr st.regs 7 (getEr st.regs 7 - 4),
                    pc := getEr (setEr st.regs 7 (getEr st.regs 7 - 4)) (nib op 3) &&& ADDRESS_MASK, bus := st'.bus } ∧
    readAbs24L (frameAddr st.regs) st' = .ok st.pc st' ∧
    (∀ x, x ≠ frameAddr st.regs → x ≠ frameAddr st.regs + 1 → x ≠ frameAddr st.regs + 2 →
        x ≠ frameAddr st.regs + 3 → st'.bus.read x = st.bus.read x) := by
  simp only [jsrErn, bind_ok, readRnL_ok _ _ seven_ok, get_ok] at h
  split at h
  case h_2 => simp at h
  case h_3 => simp at h
  rename_i u s1 hpush
  obtain ⟨hs1, hfr, hoth⟩ := push_long st s1 st.pc hpush h0 h1 h2 h3
  simp only [readRnL_ok _ _ hn, modify_ok, pure_ok] at h
  have hs : st' = { s1 with pc := getEr s1.regs (nib op 3) &&& ADDRESS_MASK } := by cost_IK
  subst hs
  refine ⟨?_, ?_, ?_⟩
  · rw [hs1]
  · exact (readAbs24L_ok _ _ _ _ hfr).2 _ (by simp)
  · intro x x0 x1 x2 x3
    simpa using hoth x x0 x1 x2 x3

/-- **RTS**: pops a long from @SP; PC := its low 24 bits; SP + 4; nothing else changes -/
theorem rts_return (st st' : Cpu) (cost : BitVec 8) (v : BitVec 32)
    (hr : readAbs24L (getEr st.regs 7 &&& ADDRESS_MASK) st = .ok v st)
    (h : rts st = .ok cost st') :
    st' = { st with regs := setEr st.regs 7 (getEr st.regs 7 + 4), pc := v &&& ADDRESS_MASK } := by
  simp only [rts, bind_ok, readIncErn, readMem, readRnL_ok _ _ seven_ok, hr, writeRnL_ok _ _ _ seven_ok, pure_ok,
    modify_ok, Sz.bytes] at h
  split at h
  case h_2 => simp at h
  case h_3 => simp at h
  rename_i c1 sa hc1
  have := costI_state hc1; subst this
  split at h
  case h_2 => simp at h
  case h_3 => simp at h
  rename_i c2 sb hc2
  have := calcStateWithAddr_state hc2; subst this
  split at h
  case h_2 => simp at h
  case h_3 => simp at h
  rename_i c3 sc hc3
  have := calcState_state hc3; subst this
  simp only [Res.ok.injEq] at h
  exact h.2.symm

theorem sp_after_push (r : Regs) : getEr (setEr r 7 (getEr r 7 - 4)) 7 = getEr r 7 - 4 := by
  simp only [getEr, setEr, shOf]; bv_decide

theorem low24_pc (pc : BitVec 32) (h : BitVec.ule pc 0xffffff#32 = true) : pc &&& ADDRESS_MASK = pc := by
  simp only [ADDRESS_MASK]; bv_decide

/-- a call that completed, followed by RTS: back at the instruction after the call -/
theorem call_rts (st s1 st2 : Cpu) (c : BitVec 8) (target : BitVec 32)
    (hs1 : s1 = { st with regs := setEr st.regs 7 (getEr st.regs 7 - 4), pc := target, bus := s1.bus })
    (hfr : readAbs24L (frameAddr st.regs) s1 = .ok st.pc s1)
    (hpc : BitVec.ule st.pc 0xffffff#32 = true)
    (h : rts s1 = .ok c st2) :
    st2 = { st with bus := s1.bus } := by
  have hsp : getEr s1.regs 7 = getEr st.regs 7 - 4 := by rw [hs1]; exact sp_after_push _
  have hr : readAbs24L (getEr s1.regs 7 &&& ADDRESS_MASK) s1 = .ok st.pc s1 := by rw [hsp]; exact hfr
  have := rts_return s1 st2 c st.pc hr h
  rw [this, low24_pc _ hpc, hsp, hs1]
  simp only
  congr 1
  generalize st.regs = r
  simp only [getEr, setEr, shOf]
  bv_decide

/-- **BSR d:8 … RTS**: every register (SP on all 32 bits), CCR and PC are those of the instruction after the
    call; memory differs at most in the four frame bytes -/
theorem bsr8_rts_roundtrip (op : BitVec 16) (st st2 : Cpu) (c : BitVec 8)
    (h : (bsrDisp8 op >>= fun _ => rts) st = .ok c st2)
    (hpc : BitVec.ule st.pc 0xffffff#32 = true)
    (h0 : Spec.plain (frameAddr st.regs).toNat) (h1 : Spec.plain (frameAddr st.regs + 1).toNat)
    (h2 : Spec.plain (frameAddr st.regs + 2).toNat) (h3 : Spec.plain (frameAddr st.regs + 3).toNat) :
    st2 = { st with bus := st2.bus } ∧
    (∀ x, x ≠ frameAddr st.regs → x ≠ frameAddr st.regs + 1 → x ≠ frameAddr st.regs + 2 →
        x ≠ frameAddr st.regs + 3 → st2.bus.read x = st.bus.read x) := by
  rw [bind_ok] at h
  split at h
  case h_2 => simp at h
  case h_3 => simp at h
  rename_i c1 s1 hcall
  obtain ⟨hs1, hfr, hoth⟩ := bsr8_call op st s1 c1 hcall h0 h1 h2 h3
  have := call_rts st s1 st2 c _ hs1 hfr hpc h
  subst this
  exact ⟨rfl, hoth⟩

/-- **JSR @ERn … RTS** -/
theorem jsr_reg_rts_roundtrip (op : BitVec 16) (st st2 : Cpu) (c : BitVec 8)
    (h : (jsrErn op >>= fun _ => rts) st = .ok c st2)
    (hpc : BitVec.ule st.pc 0xffffff#32 = true)
    (hn : (nib op 3).ule 7#8 = true)
    (h0 : Spec.plain (frameAddr st.regs).toNat) (h1 : Spec.plain (frameAddr st.regs + 1).toNat)
    (h2 : Spec.plain (frameAddr st.regs + 2).toNat) (h3 : Spec.plain (frameAddr st.regs + 3).toNat) :
    st2 = { st with bus := st2.bus } ∧
    (∀ x, x ≠ frameAddr st.regs → x ≠ frameAddr st.regs + 1 → x ≠ frameAddr st.regs + 2 →
        x ≠ frameAddr st.regs + 3 → st2.bus.read x = st.bus.read x) := by
  rw [bind_ok] at h
  split at h
  case h_2 => simp at h
  case h_3 => simp at h
  rename_i c1 s1 hcall
  obtain ⟨hs1, hfr, hoth⟩ := jsr_reg_call op st s1 c1 hcall h0 h1 h2 h3 hn
  have := call_rts st s1 st2 c _ hs1 hfr hpc h
  subst this
  exact ⟨rfl, hoth⟩

/-- the JSR @ERn target in the Spec's vocabulary: low 24 bits of ERn read after the push -/
theorem jsr_target_eq_spec (r : Regs) (n : BitVec 3) :
    getEr (setEr r 7 (getEr r 7 - 4)) (n.setWidth 8) &&& ADDRESS_MASK =
      Spec.low24 (Spec.getER (Spec.setER r 7 (Spec.getER r 7 - 4)) n) := by
  simp only [Spec.low24, getER_eq, setER_eq, getEr, setEr, shOf, ADDRESS_MASK]
  bv_decide

-- non-vacuity: a frame in on-chip RAM
example : Spec.plain 0xffff00 ∧ Spec.plain 0xffff03 := by decide

end H8.Props.C05H
