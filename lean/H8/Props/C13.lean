/-
  C13 — the run loop runs to the exit address on one consistent, deterministic time base.

  About `Model/Run.lean` (the mirror of `Cpu::run`):
    * accounting of one instruction (`account`): total += charge, the bus's copy equals the total, at most one
      message is emitted, exactly when the running counter reaches the interval, and it reads `sync:<new total>`;
    * the abstract counter (`Acct`): for EVERY sequence of charges below the interval, the number of sync
      messages emitted so far is  total / 2,000,000  and one is emitted precisely by the instruction that
      moves  total / 2,000,000  up — "exactly once each time the total passes another multiple";
      `account` refines it (`account_refines`), so the statement holds for every run of the model;
    * the charge is 3 × the cost returned by the instruction, at most 765 < the interval, and the very same
      number goes to the total, to the sync counter and to the peripherals (`iterate_ok`);
    * a failing instruction ends the run with the error, without accounting (`iterate_error`); the run ends
      as finished exactly when PC equals the exit address after an instruction (`iterate_ok`);
    * the result of `loop` does not depend on the iteration bound once it is large enough (`loop_mono`):
      the run is a function of program, arguments and received lines only (nothing else is an input).
  Wall-clock pacing is outside the model (it feeds nothing back); the reruns under host load in the
  harness check that.  That one charge of 3c to the timer equals charging it in any pieces is C17
  (`Props.C17.charge_split`).
-/
import H8.Model.Run
namespace H8.Props.C13
open H8 H8.Run

def I : Nat := Gen.SYNC_MESSAGE_INTERVAL

theorem interval_value : I = 2000000 := by decide

/-! ## the abstract counter -/

/-- (total, running counter, sync messages emitted) -/
structure Acct where
  total : Nat := 0
  sync : Nat := 0
  emitted : Nat := 0

def Acct.step (a : Acct) (c : Nat) : Acct :=
  if a.sync + c ≥ I then { total := a.total + c, sync := a.sync + c - I, emitted := a.emitted + 1 }
  else { total := a.total + c, sync := a.sync + c, emitted := a.emitted }

def Acct.Inv (a : Acct) : Prop := a.total = I * a.emitted + a.sync ∧ a.sync < I

theorem Acct.inv_init : ({} : Acct).Inv := by simp [Acct.Inv, interval_value]

theorem Acct.inv_step (a : Acct) (c : Nat) (h : a.Inv) (hc : c < I) : (a.step c).Inv := by
  unfold Acct.Inv Acct.step at *
  rw [interval_value] at *
  split <;> simp <;> omega

/-- under the invariant the number of messages emitted is total / interval -/
theorem Acct.emitted_eq (a : Acct) (h : a.Inv) : a.emitted = a.total / I := by
  unfold Acct.Inv at h
  rw [interval_value] at *
  omega

/-- a message is emitted by precisely the instruction that moves total / interval up, and then by one -/
theorem Acct.emits_iff_crosses (a : Acct) (c : Nat) (h : a.Inv) (hc : c < I) :
    ((a.step c).emitted = a.emitted + 1 ↔ (a.total + c) / I = a.total / I + 1) ∧
    ((a.step c).emitted = a.emitted ↔ (a.total + c) / I = a.total / I) ∧
    ((a.step c).emitted = a.emitted ∨ (a.step c).emitted = a.emitted + 1) := by
  have h' := Acct.inv_step a c h hc
  have e1 := Acct.emitted_eq a h
  have e2 := Acct.emitted_eq _ h'
  have ht : (a.step c).total = a.total + c := by unfold Acct.step; split <;> rfl
  rw [ht] at e2
  have hcases : (a.step c).emitted = a.emitted ∨ (a.step c).emitted = a.emitted + 1 := by
    unfold Acct.step; split <;> simp
  refine ⟨?_, ?_, hcases⟩ <;> constructor <;> intro hh <;> omega

/-- every reachable state of the counter: after any sequence of charges (each below the interval) -/
theorem Acct.run_inv (cs : List Nat) (a : Acct) (h : a.Inv) (hcs : ∀ c, c ∈ cs → c < I) :
    (cs.foldl Acct.step a).Inv := by
  induction cs generalizing a with
  | nil => simpa
  | cons c rest ih =>
    exact ih _ (Acct.inv_step a c h (hcs c (by simp))) (fun c' hc' => hcs c' (by simp [hc']))

theorem Acct.step_total (a : Acct) (c : Nat) : (a.step c).total = a.total + c := by
  unfold Acct.step; split <;> rfl

theorem Acct.run_total (cs : List Nat) (a : Acct) : (cs.foldl Acct.step a).total = a.total + cs.sum := by
  induction cs generalizing a with
  | nil => simp
  | cons c rest ih => simp only [List.foldl_cons, List.sum_cons]; rw [ih, Acct.step_total]; omega

/-- **the number of sync messages after any execution is total / 2,000,000, and the total is the sum of
    the charges** -/
theorem sync_count_exact (cs : List Nat) (hcs : ∀ c, c ∈ cs → c < I) :
    (cs.foldl Acct.step {}).emitted = (cs.foldl Acct.step {}).total / 2000000 ∧
    (cs.foldl Acct.step {}).total = cs.sum := by
  have hinv := Acct.run_inv cs {} Acct.inv_init hcs
  refine ⟨by rw [← interval_value]; exact Acct.emitted_eq _ hinv, ?_⟩
  rw [Acct.run_total]; simp

/-! ## `account` (the code's accounting) refines the counter -/

/-- abstraction: total and running counter of the model state, messages emitted since `n0` -/
def absOf (s : St) (n0 : Nat) : Acct :=
  { total := s.cpu.stateSum, sync := s.sync, emitted := s.cpu.bus.msgs.length - n0 }

theorem account_total (s : St) (c : Nat) :
    (account s c).cpu.stateSum = s.cpu.stateSum + c ∧ (account s c).cpu.bus.stateSum = s.cpu.stateSum + c := by
  by_cases h : s.sync + c ≥ Gen.SYNC_MESSAGE_INTERVAL <;> simp [account, h, sendMsg, Bus.sendMessage]

theorem account_refines (s : St) (c : Nat) (n0 : Nat) (hn : n0 ≤ s.cpu.bus.msgs.length) :
    absOf (account s c) n0 = (absOf s n0).step c := by
  by_cases h : s.sync + c ≥ Gen.SYNC_MESSAGE_INTERVAL
  · simp [account, Acct.step, absOf, I, h, sendMsg, Bus.sendMessage]; omega
  · simp [account, Acct.step, absOf, I, h]

/-- the message, when one is emitted, is `sync:<new total>` and it is the newest one; otherwise the
    message log is untouched -/
theorem account_message (s : St) (c : Nat) :
    (account s c).cpu.bus.msgs =
      if s.sync + c ≥ I then s!"sync:{s.cpu.stateSum + c}" :: s.cpu.bus.msgs else s.cpu.bus.msgs := by
  by_cases h : s.sync + c ≥ Gen.SYNC_MESSAGE_INTERVAL <;> simp [account, I, h, sendMsg, Bus.sendMessage]

/-- nothing but the two totals, the counter and the message log changes -/
theorem account_frame (s : St) (c : Nat) :
    (account s c).cpu.regs = s.cpu.regs ∧ (account s c).cpu.pc = s.cpu.pc ∧ (account s c).cpu.ccr = s.cpu.ccr ∧
    (account s c).cpu.pending = s.cpu.pending ∧ (account s c).cpu.bus.timer = s.cpu.bus.timer ∧
    (account s c).cpu.bus.ram = s.cpu.bus.ram ∧ (account s c).cpu.bus.dram = s.cpu.bus.dram ∧
    (account s c).cpu.bus.io1 = s.cpu.bus.io1 ∧ (account s c).cpu.bus.io2 = s.cpu.bus.io2 ∧
    (account s c).paused = s.paused := by
  by_cases h : s.sync + c ≥ Gen.SYNC_MESSAGE_INTERVAL <;> simp [account, h, sendMsg, Bus.sendMessage]

/-! ## one loop iteration -/

/-- the charge: three times the cost the instruction returned; never reaches the interval -/
theorem charge_bound (cost : BitVec 8) : cost.toNat * 3 ≤ 765 ∧ cost.toNat * 3 < I := by
  have := cost.isLt
  rw [interval_value]; omega

/-- a failing instruction (or interrupt entry) ends the run with that error; nothing is accounted -/
theorem iterate_error (s : St) (c1 : Cpu) (h1 : tryInterrupt s.cpu = .ok () c1) (h2 : step c1 = .err) :
    (iterate s).2 = .error ∧ (iterate s).1.cpu.stateSum = c1.stateSum ∧ (iterate s).1.sync = s.sync := by
  unfold iterate; simp [h1, h2]

theorem iterate_interrupt_error (s : St) (h1 : tryInterrupt s.cpu = .err) :
    iterate s = (s, .error) := by
  unfold iterate; simp [h1]

theorem timerTicks_stateSum : ∀ (n : Nat) (b : Bus) (acc : List (BitVec 8)),
    (Bus.timerTicks n b acc).1.stateSum = b.stateSum ∧ (Bus.timerTicks n b acc).1.msgs = b.msgs := by
  intro n
  induction n with
  | zero => intro b acc; simp [Bus.timerTicks]
  | succ n ih =>
    intro b acc
    simp only [Bus.timerTicks]
    rw [(ih _ _).1, (ih _ _).2]
    simp [Bus.timerTick]

theorem updateModules_stateSum (b : Bus) (st : Nat) :
    (b.updateModules st).1.stateSum = b.stateSum ∧ (b.updateModules st).1.msgs = b.msgs := by
  by_cases h : b.timer.prescaler = 0
  · simp [Bus.updateModules, h]
  · simp only [Bus.updateModules, h, if_false]
    rw [(timerTicks_stateSum _ _ _).1, (timerTicks_stateSum _ _ _).2]
    simp

/-- a successful instruction that returned `cost`, leaving the CPU in `c2`: the total advances by 3·cost
    from what the instruction left, the bus's copy is the same number, the peripherals are advanced by that
    very amount, the counter follows `Acct.step`, and the run ends iff PC is the exit address. -/
theorem iterate_ok (s : St) (c1 c2 : Cpu) (cost : BitVec 8)
    (h1 : tryInterrupt s.cpu = .ok () c1) (h2 : step c1 = .ok cost c2) :
    let charge := cost.toNat * 3
    let acc := account { s with cpu := c2 } charge
    (iterate s).1.cpu.stateSum = c2.stateSum + charge ∧
    (iterate s).1.cpu.bus.stateSum = c2.stateSum + charge ∧
    (iterate s).1.sync = acc.sync ∧
    (iterate s).1.cpu.bus = (acc.cpu.bus.updateModules charge).1 ∧
    (iterate s).1.cpu.pending = acc.cpu.pending ++ (acc.cpu.bus.updateModules charge).2 ∧
    ((iterate s).2 = .finished ↔ (iterate s).1.cpu.pc = (iterate s).1.cpu.exitAddr) ∧
    ((iterate s).2 = .finished ∨ (iterate s).2 = .running) := by
  intro charge acc
  have ht := account_total { s with cpu := c2 } charge
  unfold iterate
  simp only [h1, h2]
  refine ⟨?_, ?_, ?_, ?_, ?_, ?_, ?_⟩
  · split <;> simp [ht.1, charge]
  · split <;> simp [(updateModules_stateSum _ _).1, ht.2, charge]
  · split <;> rfl
  · split <;> rfl
  · split <;> rfl
  · split <;> simp_all
  · split <;> simp

/-! ## the bound on iterations does not influence the result -/

theorem loop_mono : ∀ (n : Nat) (s : St) (q : List (List Char)) (plan : List Nat) (r : St × End × List (List Char)),
    loop n s q plan = some r → ∀ k, loop (n + k) s q plan = some r := by
  intro n
  induction n with
  | zero => intro s q plan r h; simp [loop] at h
  | succ n ih =>
    intro s q plan r h k
    have e : n + 1 + k = (n + k) + 1 := by omega
    rw [e]
    simp only [loop] at h ⊢
    rcases htb : takeBatch q plan with ⟨b, q', plan'⟩
    rw [htb] at h
    simp only at h ⊢
    rcases hit : iteration s b with ⟨s1, e1⟩
    rw [hit] at h
    cases e1 <;> simp only at h ⊢
    · exact ih s1 q' plan' r h k
    all_goals exact h

/-- two sufficiently large bounds give the same run -/
theorem loop_deterministic (n m : Nat) (s : St) (q : List (List Char)) (plan : List Nat)
    (r1 r2 : St × End × List (List Char)) (h1 : loop n s q plan = some r1) (h2 : loop m s q plan = some r2) :
    r1 = r2 := by
  have a := loop_mono n s q plan r1 h1 m
  have b := loop_mono m s q plan r2 h2 n
  rw [Nat.add_comm] at b
  rw [a] at b
  exact Option.some.inj b

/-! ## non-vacuity -/

/-- the counter just below the interval: a charge of 42 crosses it and emits exactly one message -/
example : ({ total := 1999974, sync := 1999974, emitted := 0 } : Acct).Inv ∧
    (({ total := 1999974, sync := 1999974, emitted := 0 } : Acct).step 42).emitted = 1 ∧
    (({ total := 1999974, sync := 1999974, emitted := 0 } : Acct).step 42).sync = 16 := by
  simp [Acct.Inv, Acct.step, I, Gen.SYNC_MESSAGE_INTERVAL]

end H8.Props.C13
