/-
  C02 — Arithmetic instructions produce the manual's result and H,N,Z,V,C flags.

  One theorem per instruction form: for EVERY opcode word of the form (all register numbers in
  every field), EVERY register file (all 2^256) and EVERY initial CCR, whenever the Model's
  handler completes, the state it leaves is the initial state with exactly `regs` and `ccr`
  replaced by what the Spec (manual semantics) prescribes for the instruction the word encodes
  (`Spec.instrOf`, generated from spec/isa.tbl).  PC, memory, pending interrupts — everything
  else — is untouched by the handler (PC is advanced by `fetch`, covered in C07).
-/
import H8.Props.Common
import H8.Lemmas.Cost
namespace H8.Props.C02
open H8 H8.Lemmas H8.Props

/-- ADD.B Rs,Rd -/
theorem ADD_B_RR (op : BitVec 16) (st st' : Cpu) (c : BitVec 8) (i : Spec.Instr)
    (hi : Spec.instrOf .ADD_B_RR op 0 0 0 0 = some i) (h : addBRn op st = .ok c st') :
    st' = { st with regs := (specRegCcr i st).1, ccr := (specRegCcr i st).2 } := by
  rw [Spec.instrOf_ADD_B_RR] at hi; simp only [Option.some.injEq] at hi; subst hi
  simp only [addBRn, bind_ok, readRnB_nib, writeRnB_nib, addProc8] at h
  have := costI_state h; subst this
  simp only [specRegCcr, Spec.exec, Spec.alu2At, Spec.getReg, Spec.setReg, getR8_eq, setR8_eq, Spec.alu2K, Option.map]
  generalize st.regs = r; generalize st.ccr = cc
  regs_ccr_decide

/-- ADD.W Rs,Rd -/
theorem ADD_W_RR (op : BitVec 16) (st st' : Cpu) (c : BitVec 8) (i : Spec.Instr)
    (hi : Spec.instrOf .ADD_W_RR op 0 0 0 0 = some i) (h : addWRn op st = .ok c st') :
    st' = { st with regs := (specRegCcr i st).1, ccr := (specRegCcr i st).2 } := by
  rw [Spec.instrOf_ADD_W_RR] at hi; simp only [Option.some.injEq] at hi; subst hi
  simp only [addWRn, bind_ok, readRnW_nib, writeRnW_nib, addProc16] at h
  have := costI_state h; subst this
  simp only [specRegCcr, Spec.exec, Spec.alu2At, Spec.getReg, Spec.setReg, getR16_eq, setR16_eq, Spec.alu2K, Option.map]
  generalize st.regs = r; generalize st.ccr = cc
  regs_ccr_decide

/-- SUB.B Rs,Rd -/
theorem SUB_B_RR (op : BitVec 16) (st st' : Cpu) (c : BitVec 8) (i : Spec.Instr)
    (hi : Spec.instrOf .SUB_B_RR op 0 0 0 0 = some i) (h : subB op st = .ok c st') :
    st' = { st with regs := (specRegCcr i st).1, ccr := (specRegCcr i st).2 } := by
  rw [Spec.instrOf_SUB_B_RR] at hi; simp only [Option.some.injEq] at hi; subst hi
  simp only [subB, bind_ok, readRnB_nib, writeRnB_nib, subCalc8] at h
  have := costI_state h; subst this
  simp only [specRegCcr, Spec.exec, Spec.alu2At, Spec.getReg, Spec.setReg, getR8_eq, setR8_eq, Spec.alu2K, Option.map]
  generalize st.regs = r; generalize st.ccr = cc
  regs_ccr_decide

/-- SUB.W Rs,Rd -/
theorem SUB_W_RR (op : BitVec 16) (st st' : Cpu) (c : BitVec 8) (i : Spec.Instr)
    (hi : Spec.instrOf .SUB_W_RR op 0 0 0 0 = some i) (h : subWRn op st = .ok c st') :
    st' = { st with regs := (specRegCcr i st).1, ccr := (specRegCcr i st).2 } := by
  rw [Spec.instrOf_SUB_W_RR] at hi; simp only [Option.some.injEq] at hi; subst hi
  simp only [subWRn, bind_ok, readRnW_nib, writeRnW_nib, subCalc16] at h
  have := costI_state h; subst this
  simp only [specRegCcr, Spec.exec, Spec.alu2At, Spec.getReg, Spec.setReg, getR16_eq, setR16_eq, Spec.alu2K, Option.map]
  generalize st.regs = r; generalize st.ccr = cc
  regs_ccr_decide

/-- CMP.B Rs,Rd: flags only, no register written -/
theorem CMP_B_RR (op : BitVec 16) (st st' : Cpu) (c : BitVec 8) (i : Spec.Instr)
    (hi : Spec.instrOf .CMP_B_RR op 0 0 0 0 = some i) (h : cmpBRn op st = .ok c st') :
    st' = { st with regs := (specRegCcr i st).1, ccr := (specRegCcr i st).2 } := by
  rw [Spec.instrOf_CMP_B_RR] at hi; simp only [Option.some.injEq] at hi; subst hi
  simp only [cmpBRn, bind_ok, readRnB_nib, subCalc8] at h
  have := costI_state h; subst this
  simp only [specRegCcr, Spec.exec, Spec.alu2At, Spec.getReg, Spec.setReg, getR8_eq, setR8_eq, Spec.alu2K, Option.map]
  generalize st.regs = r; generalize st.ccr = cc
  regs_ccr_decide

/-- CMP.W Rs,Rd -/
theorem CMP_W_RR (op : BitVec 16) (st st' : Cpu) (c : BitVec 8) (i : Spec.Instr)
    (hi : Spec.instrOf .CMP_W_RR op 0 0 0 0 = some i) (h : cmpWRn op st = .ok c st') :
    st' = { st with regs := (specRegCcr i st).1, ccr := (specRegCcr i st).2 } := by
  rw [Spec.instrOf_CMP_W_RR] at hi; simp only [Option.some.injEq] at hi; subst hi
  simp only [cmpWRn, bind_ok, readRnW_nib, subCalc16] at h
  have := costI_state h; subst this
  simp only [specRegCcr, Spec.exec, Spec.alu2At, Spec.getReg, Spec.setReg, getR16_eq, setR16_eq, Spec.alu2K, Option.map]
  generalize st.regs = r; generalize st.ccr = cc
  regs_ccr_decide

/-- ADDX Rs,Rd: the incoming carry enters the result, H and C; Z is only ever cleared -/
theorem ADDX_RR (op : BitVec 16) (st st' : Cpu) (c : BitVec 8) (i : Spec.Instr)
    (hi : Spec.instrOf .ADDX_RR op 0 0 0 0 = some i) (h : addxRn op st = .ok c st') :
    st' = { st with regs := (specRegCcr i st).1, ccr := (specRegCcr i st).2 } := by
  rw [Spec.instrOf_ADDX_RR] at hi; simp only [Option.some.injEq] at hi; subst hi
  simp only [addxRn, bind_ok, readRnB_nib, writeRnB_nib, addxProc_eq] at h
  have := costI_state h; subst this
  simp only [specRegCcr, Spec.exec, Spec.alu2At, Spec.getReg, Spec.setReg, getR8_eq, setR8_eq, addx_result, Option.map]
  generalize st.regs = r; generalize st.ccr = cc
  congr 1
  all_goals (
    simp only [Spec.alu2K, Spec.addFlags, Spec.setFlag, Spec.flag, Spec.carryAt, nib, rdB, wrB, getEr, setEr, shOf]
    bv_decide)

/-- Non-vacuity / totality: with the instruction at a 24-bit address the handler always completes. -/
theorem ADD_B_RR_total (op : BitVec 16) (st : Cpu) (ha : BitVec.ule st.opc 0xffffff#32 = true) :
    ∃ c st', addBRn op st = .ok c st' := by
  simp only [addBRn, bind_ok, readRnB_nib, writeRnB_nib, addProc8]
  have key : ∀ S : Cpu, S.opc = st.opc → ∃ c st', costI 1 S = .ok c st' :=
    fun S hS => (costI_total' S 1 st.opc hS ha).elim fun c hc => ⟨c, S, hc⟩
  refine key _ ?_
  rfl
end H8.Props.C02
