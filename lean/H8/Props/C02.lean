/-
  C02 — Arithmetic instructions produce the manual's result and H,N,Z,V,C flags.

  One theorem per instruction form: for EVERY opcode word of the form (all register numbers in
  every field), EVERY register file (all 2^256) and EVERY initial CCR, whenever the Model's
  handler completes, the state it leaves is the initial state with exactly `regs` and `ccr`
  replaced by what the Spec (manual semantics) prescribes for the instruction the word encodes
  (`Spec.instrOf`, generated from spec/isa.tbl).  PC, memory, pending interrupts — everything
  else — is untouched by the handler (PC is advanced by `fetch`, covered in C07).
-/
import H8.Props.Common
import H8.Lemmas.Cost
set_option linter.unusedSimpArgs false
namespace H8.Props.C02
open H8 H8.Lemmas H8.Props

/-- ADD.B Rs,Rd -/
theorem ADD_B_RR (op : BitVec 16) (st st' : Cpu) (c : BitVec 8) (i : Spec.Instr)
    (hi : Spec.instrOf .ADD_B_RR op 0 0 0 0 = some i) (h : addBRn op st = .ok c st') :
    st' = { st with regs := (specRegCcr i st).1, ccr := (specRegCcr i st).2 } := by
  rw [Spec.instrOf_ADD_B_RR] at hi; simp only [Option.some.injEq] at hi; subst hi
  simp only [addBRn, bind_ok, readRnB_nib, writeRnB_nib, addProc8] at h
  have := costI_state h; subst this
  simp only [specRegCcr, Spec.exec, Spec.alu2At, Spec.getReg, Spec.setReg, getR8_eq, setR8_eq, Spec.alu2K, Option.map]
  generalize st.regs = r; generalize st.ccr = cc
  regs_ccr_decide

/-- ADD.W Rs,Rd -/
theorem ADD_W_RR (op : BitVec 16) (st st' : Cpu) (c : BitVec 8) (i : Spec.Instr)
    (hi : Spec.instrOf .ADD_W_RR op 0 0 0 0 = some i) (h : addWRn op st = .ok c st') :
    st' = { st with regs := (specRegCcr i st).1, ccr := (specRegCcr i st).2 } := by
  rw [Spec.instrOf_ADD_W_RR] at hi; simp only [Option.some.injEq] at hi; subst hi
  simp only [addWRn, bind_ok, readRnW_nib, writeRnW_nib, addProc16] at h
  have := costI_state h; subst this
  simp only [specRegCcr, Spec.exec, Spec.alu2At, Spec.getReg, Spec.setReg, getR16_eq, setR16_eq, Spec.alu2K, Option.map]
  generalize st.regs = r; generalize st.ccr = cc
  regs_ccr_decide

/-- SUB.B Rs,Rd -/
theorem SUB_B_RR (op : BitVec 16) (st st' : Cpu) (c : BitVec 8) (i : Spec.Instr)
    (hi : Spec.instrOf .SUB_B_RR op 0 0 0 0 = some i) (h : subB op st = .ok c st') :
    st' = { st with regs := (specRegCcr i st).1, ccr := (specRegCcr i st).2 } := by
  rw [Spec.instrOf_SUB_B_RR] at hi; simp only [Option.some.injEq] at hi; subst hi
  simp only [subB, bind_ok, readRnB_nib, writeRnB_nib, subCalc8] at h
  have := costI_state h; subst this
  simp only [specRegCcr, Spec.exec, Spec.alu2At, Spec.getReg, Spec.setReg, getR8_eq, setR8_eq, Spec.alu2K, Option.map]
  generalize st.regs = r; generalize st.ccr = cc
  regs_ccr_decide

/-- SUB.W Rs,Rd -/
theorem SUB_W_RR (op : BitVec 16) (st st' : Cpu) (c : BitVec 8) (i : Spec.Instr)
    (hi : Spec.instrOf .SUB_W_RR op 0 0 0 0 = some i) (h : subWRn op st = .ok c st') :
    st' = { st with regs := (specRegCcr i st).1, ccr := (specRegCcr i st).2 } := by
  rw [Spec.instrOf_SUB_W_RR] at hi; simp only [Option.some.injEq] at hi; subst hi
  simp only [subWRn, bind_ok, readRnW_nib, writeRnW_nib, subCalc16] at h
  have := costI_state h; subst this
  simp only [specRegCcr, Spec.exec, Spec.alu2At, Spec.getReg, Spec.setReg, getR16_eq, setR16_eq, Spec.alu2K, Option.map]
  generalize st.regs = r; generalize st.ccr = cc
  regs_ccr_decide

/-- CMP.B Rs,Rd: flags only, no register written -/
theorem CMP_B_RR (op : BitVec 16) (st st' : Cpu) (c : BitVec 8) (i : Spec.Instr)
    (hi : Spec.instrOf .CMP_B_RR op 0 0 0 0 = some i) (h : cmpBRn op st = .ok c st') :
    st' = { st with regs := (specRegCcr i st).1, ccr := (specRegCcr i st).2 } := by
  rw [Spec.instrOf_CMP_B_RR] at hi; simp only [Option.some.injEq] at hi; subst hi
  simp only [cmpBRn, bind_ok, readRnB_nib, subCalc8] at h
  have := costI_state h; subst this
  simp only [specRegCcr, Spec.exec, Spec.alu2At, Spec.getReg, Spec.setReg, getR8_eq, setR8_eq, Spec.alu2K, Option.map]
  generalize st.regs = r; generalize st.ccr = cc
  regs_ccr_decide

/-- CMP.W Rs,Rd -/
theorem CMP_W_RR (op : BitVec 16) (st st' : Cpu) (c : BitVec 8) (i : Spec.Instr)
    (hi : Spec.instrOf .CMP_W_RR op 0 0 0 0 = some i) (h : cmpWRn op st = .ok c st') :
    st' = { st with regs := (specRegCcr i st).1, ccr := (specRegCcr i st).2 } := by
  rw [Spec.instrOf_CMP_W_RR] at hi; simp only [Option.some.injEq] at hi; subst hi
  simp only [cmpWRn, bind_ok, readRnW_nib, subCalc16] at h
  have := costI_state h; subst this
  simp only [specRegCcr, Spec.exec, Spec.alu2At, Spec.getReg, Spec.setReg, getR16_eq, setR16_eq, Spec.alu2K, Option.map]
  generalize st.regs = r; generalize st.ccr = cc
  regs_ccr_decide

/-- ADDX Rs,Rd: the incoming carry enters the result, H and C; Z is only ever cleared -/
theorem ADDX_RR (op : BitVec 16) (st st' : Cpu) (c : BitVec 8) (i : Spec.Instr)
    (hi : Spec.instrOf .ADDX_RR op 0 0 0 0 = some i) (h : addxRn op st = .ok c st') :
    st' = { st with regs := (specRegCcr i st).1, ccr := (specRegCcr i st).2 } := by
  rw [Spec.instrOf_ADDX_RR] at hi; simp only [Option.some.injEq] at hi; subst hi
  simp only [addxRn, bind_ok, readRnB_nib, writeRnB_nib, addxProc_eq] at h
  have := costI_state h; subst this
  simp only [specRegCcr, Spec.exec, Spec.alu2At, Spec.getReg, Spec.setReg, getR8_eq, setR8_eq, addx_result, Option.map]
  generalize st.regs = r; generalize st.ccr = cc
  congr 1
  all_goals (
    simp only [Spec.alu2K, Spec.addFlags, Spec.setFlag, Spec.flag, Spec.carryAt, nib, rdB, wrB, getEr, setEr, shOf]
    bv_decide)

/-! ### longword register forms (the pattern fixes bit 3 of the destination field, so ERd exists) -/

/-- ADD.L ERs,ERd -/
theorem ADD_L_RR (op : BitVec 16) (st st' : Cpu) (c : BitVec 8) (i : Spec.Instr)
    (hp : Spec.Form.pat .ADD_L_RR op 0 0 0 0 = true)
    (hi : Spec.instrOf .ADD_L_RR op 0 0 0 0 = some i) (h : addLRn op st = .ok c st') :
    st' = { st with regs := (specRegCcr i st).1, ccr := (specRegCcr i st).2 } := by
  rw [Spec.instrOf_ADD_L_RR] at hi; simp only [Option.some.injEq] at hi; subst hi
  rw [Spec.pat_ADD_L_RR] at hp; simp only [Bool.and_eq_true, beq_iff_eq] at hp
  have h4 : (nib op 4).ule 7#8 = true := by (simp only [nib]; bv_decide)
  have h3 : (nib op 3 &&& 7).ule 7#8 = true := by (simp only [nib]; bv_decide)
  simp only [addLRn, bind_ok, readRnL_ok _ _ h4, readRnL_ok _ _ h3, writeRnL_ok _ _ _ h4, addProc32] at h
  have := costI_state h; subst this
  simp only [specRegCcr, Spec.exec, Spec.alu2At, Spec.getReg, Spec.setReg, getER_eq, setER_eq, Spec.alu2K, Option.map]
  generalize st.regs = r; generalize st.ccr = cc
  regs_ccr_decide

/-- SUB.L ERs,ERd -/
theorem SUB_L_RR (op : BitVec 16) (st st' : Cpu) (c : BitVec 8) (i : Spec.Instr)
    (hp : Spec.Form.pat .SUB_L_RR op 0 0 0 0 = true)
    (hi : Spec.instrOf .SUB_L_RR op 0 0 0 0 = some i) (h : subLRn op st = .ok c st') :
    st' = { st with regs := (specRegCcr i st).1, ccr := (specRegCcr i st).2 } := by
  rw [Spec.instrOf_SUB_L_RR] at hi; simp only [Option.some.injEq] at hi; subst hi
  rw [Spec.pat_SUB_L_RR] at hp; simp only [Bool.and_eq_true, beq_iff_eq] at hp
  have h4 : (nib op 4).ule 7#8 = true := by (simp only [nib]; bv_decide)
  have h3 : (nib op 3 &&& 7).ule 7#8 = true := by (simp only [nib]; bv_decide)
  simp only [subLRn, bind_ok, readRnL_ok _ _ h4, readRnL_ok _ _ h3, writeRnL_ok _ _ _ h4, subCalc32] at h
  have := costI_state h; subst this
  simp only [specRegCcr, Spec.exec, Spec.alu2At, Spec.getReg, Spec.setReg, getER_eq, setER_eq, Spec.alu2K, Option.map]
  generalize st.regs = r; generalize st.ccr = cc
  regs_ccr_decide

/-- CMP.L ERs,ERd -/
theorem CMP_L_RR (op : BitVec 16) (st st' : Cpu) (c : BitVec 8) (i : Spec.Instr)
    (hp : Spec.Form.pat .CMP_L_RR op 0 0 0 0 = true)
    (hi : Spec.instrOf .CMP_L_RR op 0 0 0 0 = some i) (h : cmpLRn op st = .ok c st') :
    st' = { st with regs := (specRegCcr i st).1, ccr := (specRegCcr i st).2 } := by
  rw [Spec.instrOf_CMP_L_RR] at hi; simp only [Option.some.injEq] at hi; subst hi
  rw [Spec.pat_CMP_L_RR] at hp; simp only [Bool.and_eq_true, beq_iff_eq] at hp
  have h4 : (nib op 4).ule 7#8 = true := by (simp only [nib]; bv_decide)
  have h3 : (nib op 3 &&& 7).ule 7#8 = true := by (simp only [nib]; bv_decide)
  simp only [cmpLRn, bind_ok, readRnL_ok _ _ h4, readRnL_ok _ _ h3, subCalc32] at h
  have := costI_state h; subst this
  simp only [specRegCcr, Spec.exec, Spec.alu2At, Spec.getReg, Spec.setReg, getER_eq, setER_eq, Spec.alu2K, Option.map]
  generalize st.regs = r; generalize st.ccr = cc
  regs_ccr_decide

/-! ### byte immediates -/

/-- ADD.B #xx:8,Rd -/
theorem ADD_B_IMM (op : BitVec 16) (st st' : Cpu) (c : BitVec 8) (i : Spec.Instr)
    (hi : Spec.instrOf .ADD_B_IMM op 0 0 0 0 = some i) (h : addBImm op st = .ok c st') :
    st' = { st with regs := (specRegCcr i st).1, ccr := (specRegCcr i st).2 } := by
  rw [Spec.instrOf_ADD_B_IMM] at hi; simp only [Option.some.injEq] at hi; subst hi
  simp only [addBImm, aluImmB, bind_ok, readRnB_nib, writeRnB_nib, addProc8, ↓reduceIte] at h
  have := costI_state h; subst this
  simp only [specRegCcr, Spec.exec, Spec.alu2At, Spec.getReg, Spec.setReg, getR8_eq, setR8_eq, Spec.alu2K, Option.map]
  generalize st.regs = r; generalize st.ccr = cc
  regs_ccr_decide

/-- CMP.B #xx:8,Rd -/
theorem CMP_B_IMM (op : BitVec 16) (st st' : Cpu) (c : BitVec 8) (i : Spec.Instr)
    (hi : Spec.instrOf .CMP_B_IMM op 0 0 0 0 = some i) (h : cmpBImm op st = .ok c st') :
    st' = { st with regs := (specRegCcr i st).1, ccr := (specRegCcr i st).2 } := by
  rw [Spec.instrOf_CMP_B_IMM] at hi; simp only [Option.some.injEq] at hi; subst hi
  simp only [cmpBImm, aluImmB, bind_ok, pure_ok, readRnB_nib, subCalc8, Bool.false_eq_true, ↓reduceIte] at h
  have := costI_state h; subst this
  simp only [specRegCcr, Spec.exec, Spec.alu2At, Spec.getReg, Spec.setReg, getR8_eq, setR8_eq, Spec.alu2K, Option.map]
  generalize st.regs = r; generalize st.ccr = cc
  regs_ccr_decide

/-- ADDX #xx:8,Rd -/
theorem ADDX_IMM (op : BitVec 16) (st st' : Cpu) (c : BitVec 8) (i : Spec.Instr)
    (hi : Spec.instrOf .ADDX_IMM op 0 0 0 0 = some i) (h : addxImm op st = .ok c st') :
    st' = { st with regs := (specRegCcr i st).1, ccr := (specRegCcr i st).2 } := by
  rw [Spec.instrOf_ADDX_IMM] at hi; simp only [Option.some.injEq] at hi; subst hi
  simp only [addxImm, aluImmB, bind_ok, readRnB_nib, writeRnB_nib, addxProc_eq, ↓reduceIte] at h
  have := costI_state h; subst this
  simp only [specRegCcr, Spec.exec, Spec.alu2At, Spec.getReg, Spec.setReg, getR8_eq, setR8_eq, addx_result, Option.map]
  generalize st.regs = r; generalize st.ccr = cc
  congr 1
  all_goals (
    simp only [Spec.alu2K, Spec.addFlags, Spec.setFlag, Spec.flag, Spec.carryAt, nib, rdB, wrB, getEr, setEr, shOf, Spec.zx8]
    bv_decide)

/-! ### ADDS / SUBS (no flags), INC / DEC (N Z V; C and H untouched), NEG, EXTU — every register number, every
     register file, every CCR -/

theorem ADDS_1 (op : BitVec 16) (st st' : Cpu) (c : BitVec 8) (i : Spec.Instr)
    (hp : Spec.Form.pat .ADDS_1 op 0 0 0 0 = true)
    (hi : Spec.instrOf .ADDS_1 op 0 0 0 0 = some i) (h : addsSubs 1 op st = .ok c st') :
    st' = { st with regs := (specRegCcr i st).1, ccr := (specRegCcr i st).2 } := by
  unary_handler Spec.instrOf_ADDS_1 Spec.pat_ADDS_1

theorem ADDS_2 (op : BitVec 16) (st st' : Cpu) (c : BitVec 8) (i : Spec.Instr)
    (hp : Spec.Form.pat .ADDS_2 op 0 0 0 0 = true)
    (hi : Spec.instrOf .ADDS_2 op 0 0 0 0 = some i) (h : addsSubs 2 op st = .ok c st') :
    st' = { st with regs := (specRegCcr i st).1, ccr := (specRegCcr i st).2 } := by
  unary_handler Spec.instrOf_ADDS_2 Spec.pat_ADDS_2

theorem ADDS_4 (op : BitVec 16) (st st' : Cpu) (c : BitVec 8) (i : Spec.Instr)
    (hp : Spec.Form.pat .ADDS_4 op 0 0 0 0 = true)
    (hi : Spec.instrOf .ADDS_4 op 0 0 0 0 = some i) (h : addsSubs 4 op st = .ok c st') :
    st' = { st with regs := (specRegCcr i st).1, ccr := (specRegCcr i st).2 } := by
  unary_handler Spec.instrOf_ADDS_4 Spec.pat_ADDS_4

theorem SUBS_1 (op : BitVec 16) (st st' : Cpu) (c : BitVec 8) (i : Spec.Instr)
    (hp : Spec.Form.pat .SUBS_1 op 0 0 0 0 = true)
    (hi : Spec.instrOf .SUBS_1 op 0 0 0 0 = some i) (h : addsSubs 0xffffffff op st = .ok c st') :
    st' = { st with regs := (specRegCcr i st).1, ccr := (specRegCcr i st).2 } := by
  unary_handler Spec.instrOf_SUBS_1 Spec.pat_SUBS_1

theorem SUBS_2 (op : BitVec 16) (st st' : Cpu) (c : BitVec 8) (i : Spec.Instr)
    (hp : Spec.Form.pat .SUBS_2 op 0 0 0 0 = true)
    (hi : Spec.instrOf .SUBS_2 op 0 0 0 0 = some i) (h : addsSubs 0xfffffffe op st = .ok c st') :
    st' = { st with regs := (specRegCcr i st).1, ccr := (specRegCcr i st).2 } := by
  unary_handler Spec.instrOf_SUBS_2 Spec.pat_SUBS_2

theorem SUBS_4 (op : BitVec 16) (st st' : Cpu) (c : BitVec 8) (i : Spec.Instr)
    (hp : Spec.Form.pat .SUBS_4 op 0 0 0 0 = true)
    (hi : Spec.instrOf .SUBS_4 op 0 0 0 0 = some i) (h : addsSubs 0xfffffffc op st = .ok c st') :
    st' = { st with regs := (specRegCcr i st).1, ccr := (specRegCcr i st).2 } := by
  unary_handler Spec.instrOf_SUBS_4 Spec.pat_SUBS_4

theorem INC_B (op : BitVec 16) (st st' : Cpu) (c : BitVec 8) (i : Spec.Instr)
    (hp : Spec.Form.pat .INC_B op 0 0 0 0 = true)
    (hi : Spec.instrOf .INC_B op 0 0 0 0 = some i) (h : inc .B 1 op st = .ok c st') :
    st' = { st with regs := (specRegCcr i st).1, ccr := (specRegCcr i st).2 } := by
  unary_handler Spec.instrOf_INC_B Spec.pat_INC_B

theorem INC_W_1 (op : BitVec 16) (st st' : Cpu) (c : BitVec 8) (i : Spec.Instr)
    (hp : Spec.Form.pat .INC_W_1 op 0 0 0 0 = true)
    (hi : Spec.instrOf .INC_W_1 op 0 0 0 0 = some i) (h : inc .W 1 op st = .ok c st') :
    st' = { st with regs := (specRegCcr i st).1, ccr := (specRegCcr i st).2 } := by
  unary_handler Spec.instrOf_INC_W_1 Spec.pat_INC_W_1

theorem INC_W_2 (op : BitVec 16) (st st' : Cpu) (c : BitVec 8) (i : Spec.Instr)
    (hp : Spec.Form.pat .INC_W_2 op 0 0 0 0 = true)
    (hi : Spec.instrOf .INC_W_2 op 0 0 0 0 = some i) (h : inc .W 2 op st = .ok c st') :
    st' = { st with regs := (specRegCcr i st).1, ccr := (specRegCcr i st).2 } := by
  unary_handler Spec.instrOf_INC_W_2 Spec.pat_INC_W_2

theorem INC_L_1 (op : BitVec 16) (st st' : Cpu) (c : BitVec 8) (i : Spec.Instr)
    (hp : Spec.Form.pat .INC_L_1 op 0 0 0 0 = true)
    (hi : Spec.instrOf .INC_L_1 op 0 0 0 0 = some i) (h : inc .L 1 op st = .ok c st') :
    st' = { st with regs := (specRegCcr i st).1, ccr := (specRegCcr i st).2 } := by
  unary_handler Spec.instrOf_INC_L_1 Spec.pat_INC_L_1

theorem INC_L_2 (op : BitVec 16) (st st' : Cpu) (c : BitVec 8) (i : Spec.Instr)
    (hp : Spec.Form.pat .INC_L_2 op 0 0 0 0 = true)
    (hi : Spec.instrOf .INC_L_2 op 0 0 0 0 = some i) (h : inc .L 2 op st = .ok c st') :
    st' = { st with regs := (specRegCcr i st).1, ccr := (specRegCcr i st).2 } := by
  unary_handler Spec.instrOf_INC_L_2 Spec.pat_INC_L_2

theorem DEC_B (op : BitVec 16) (st st' : Cpu) (c : BitVec 8) (i : Spec.Instr)
    (hp : Spec.Form.pat .DEC_B op 0 0 0 0 = true)
    (hi : Spec.instrOf .DEC_B op 0 0 0 0 = some i) (h : dec .B 1 op st = .ok c st') :
    st' = { st with regs := (specRegCcr i st).1, ccr := (specRegCcr i st).2 } := by
  unary_handler Spec.instrOf_DEC_B Spec.pat_DEC_B

theorem DEC_W_1 (op : BitVec 16) (st st' : Cpu) (c : BitVec 8) (i : Spec.Instr)
    (hp : Spec.Form.pat .DEC_W_1 op 0 0 0 0 = true)
    (hi : Spec.instrOf .DEC_W_1 op 0 0 0 0 = some i) (h : dec .W 1 op st = .ok c st') :
    st' = { st with regs := (specRegCcr i st).1, ccr := (specRegCcr i st).2 } := by
  unary_handler Spec.instrOf_DEC_W_1 Spec.pat_DEC_W_1

theorem DEC_W_2 (op : BitVec 16) (st st' : Cpu) (c : BitVec 8) (i : Spec.Instr)
    (hp : Spec.Form.pat .DEC_W_2 op 0 0 0 0 = true)
    (hi : Spec.instrOf .DEC_W_2 op 0 0 0 0 = some i) (h : dec .W 2 op st = .ok c st') :
    st' = { st with regs := (specRegCcr i st).1, ccr := (specRegCcr i st).2 } := by
  unary_handler Spec.instrOf_DEC_W_2 Spec.pat_DEC_W_2

theorem DEC_L_1 (op : BitVec 16) (st st' : Cpu) (c : BitVec 8) (i : Spec.Instr)
    (hp : Spec.Form.pat .DEC_L_1 op 0 0 0 0 = true)
    (hi : Spec.instrOf .DEC_L_1 op 0 0 0 0 = some i) (h : dec .L 1 op st = .ok c st') :
    st' = { st with regs := (specRegCcr i st).1, ccr := (specRegCcr i st).2 } := by
  unary_handler Spec.instrOf_DEC_L_1 Spec.pat_DEC_L_1

theorem DEC_L_2 (op : BitVec 16) (st st' : Cpu) (c : BitVec 8) (i : Spec.Instr)
    (hp : Spec.Form.pat .DEC_L_2 op 0 0 0 0 = true)
    (hi : Spec.instrOf .DEC_L_2 op 0 0 0 0 = some i) (h : dec .L 2 op st = .ok c st') :
    st' = { st with regs := (specRegCcr i st).1, ccr := (specRegCcr i st).2 } := by
  unary_handler Spec.instrOf_DEC_L_2 Spec.pat_DEC_L_2

theorem NEG_B (op : BitVec 16) (st st' : Cpu) (c : BitVec 8) (i : Spec.Instr)
    (hp : Spec.Form.pat .NEG_B op 0 0 0 0 = true)
    (hi : Spec.instrOf .NEG_B op 0 0 0 0 = some i) (h : unary .B negProc op st = .ok c st') :
    st' = { st with regs := (specRegCcr i st).1, ccr := (specRegCcr i st).2 } := by
  unary_handler Spec.instrOf_NEG_B Spec.pat_NEG_B

theorem NEG_W (op : BitVec 16) (st st' : Cpu) (c : BitVec 8) (i : Spec.Instr)
    (hp : Spec.Form.pat .NEG_W op 0 0 0 0 = true)
    (hi : Spec.instrOf .NEG_W op 0 0 0 0 = some i) (h : unary .W negProc op st = .ok c st') :
    st' = { st with regs := (specRegCcr i st).1, ccr := (specRegCcr i st).2 } := by
  unary_handler Spec.instrOf_NEG_W Spec.pat_NEG_W

theorem NEG_L (op : BitVec 16) (st st' : Cpu) (c : BitVec 8) (i : Spec.Instr)
    (hp : Spec.Form.pat .NEG_L op 0 0 0 0 = true)
    (hi : Spec.instrOf .NEG_L op 0 0 0 0 = some i) (h : unary .L negProc op st = .ok c st') :
    st' = { st with regs := (specRegCcr i st).1, ccr := (specRegCcr i st).2 } := by
  unary_handler Spec.instrOf_NEG_L Spec.pat_NEG_L

theorem EXTU_W (op : BitVec 16) (st st' : Cpu) (c : BitVec 8) (i : Spec.Instr)
    (hp : Spec.Form.pat .EXTU_W op 0 0 0 0 = true)
    (hi : Spec.instrOf .EXTU_W op 0 0 0 0 = some i) (h : extu .W op st = .ok c st') :
    st' = { st with regs := (specRegCcr i st).1, ccr := (specRegCcr i st).2 } := by
  unary_handler Spec.instrOf_EXTU_W Spec.pat_EXTU_W

theorem EXTU_L (op : BitVec 16) (st st' : Cpu) (c : BitVec 8) (i : Spec.Instr)
    (hp : Spec.Form.pat .EXTU_L op 0 0 0 0 = true)
    (hi : Spec.instrOf .EXTU_L op 0 0 0 0 = some i) (h : extu .L op st = .ok c st') :
    st' = { st with regs := (specRegCcr i st).1, ccr := (specRegCcr i st).2 } := by
  unary_handler Spec.instrOf_EXTU_L Spec.pat_EXTU_L

/-- Non-vacuity / totality: with the instruction at a 24-bit address the handler always completes. -/
theorem ADD_B_RR_total (op : BitVec 16) (st : Cpu) (ha : BitVec.ule st.opc 0xffffff#32 = true) :
    ∃ c st', addBRn op st = .ok c st' := by
  simp only [addBRn, bind_ok, readRnB_nib, writeRnB_nib, addProc8]
  have key : ∀ S : Cpu, S.opc = st.opc → ∃ c st', costI 1 S = .ok c st' :=
    fun S hS => (costI_total' S 1 st.opc hS ha).elim fun c hc => ⟨c, S, hc⟩
  refine key _ ?_
  rfl
end H8.Props.C02
