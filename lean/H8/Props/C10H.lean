/-
  C10 at handler level — an accepted interrupt does not disturb the interrupted instruction stream.

  `accept_rte_roundtrip`: with a request pending and I clear, `try_interrupt` followed by the handler's `RTE` leaves
  every register (SP on all 32 bits), all eight CCR bits and PC exactly as they were; the request is gone from the
  queue, the younger ones are still there in order; memory differs at most in the four frame bytes.
  `masked_inert`: with I set, `try_interrupt` changes nothing at all, whatever is pending.
-/
import H8.Props.C06H
import H8.Props.C05H
set_option linter.unusedSimpArgs false
namespace H8.Props.C10H
open H8 H8.Lemmas H8.Props H8.Props.C06H H8.Props.C05H

theorem masked_inert (st : Cpu) (hI : ((st.ccr >>> cI) &&& 1) = 1) : tryInterrupt st = .ok () st := by
  simp only [tryInterrupt, bind_ok, readCcr_ok, hI, beq_self_eq_true, if_true, pure_ok]

theorem accept_rte_roundtrip (st st2 : Cpu) (c : BitVec 8) (v : BitVec 8) (rest : List (BitVec 8))
    (hI : ((st.ccr >>> cI) &&& 1 == 1) = false) (hp : st.pending = v :: rest)
    (h : (tryInterrupt >>= fun _ => rte) st = .ok c st2)
    (hpc : BitVec.ule st.pc 0xffffff#32 = true)
    (h0 : Spec.plain ((getEr st.regs 7 - 4) &&& ADDRESS_MASK).toNat)
    (h1 : Spec.plain (((getEr st.regs 7 - 4) &&& ADDRESS_MASK) + 1).toNat)
    (h2 : Spec.plain (((getEr st.regs 7 - 4) &&& ADDRESS_MASK) + 2).toNat)
    (h3 : Spec.plain (((getEr st.regs 7 - 4) &&& ADDRESS_MASK) + 3).toNat) :
    st2 = { st with pending := rest, bus := st2.bus } ∧
    (∀ x, x ≠ ((getEr st.regs 7 - 4) &&& ADDRESS_MASK) → x ≠ ((getEr st.regs 7 - 4) &&& ADDRESS_MASK) + 1 →
        x ≠ ((getEr st.regs 7 - 4) &&& ADDRESS_MASK) + 2 → x ≠ ((getEr st.regs 7 - 4) &&& ADDRESS_MASK) + 3 →
        st2.bus.read x = st.bus.read x) := by
  have e : (tryInterrupt >>= fun _ => rte) st = (interrupt v >>= fun _ => rte) { st with pending := rest } := by
    simp only [tryInterrupt, bind_ok, readCcr_ok, hI, Bool.false_eq_true, if_false, get_ok, hp, modify_ok]
  rw [e] at h
  obtain ⟨hs, ho⟩ := entry_rte_roundtrip v { st with pending := rest } st2 c h hpc h0 h1 h2 h3
  exact ⟨hs, ho⟩

-- non-vacuity: CCR = 0 is unmasked
example : (((0x00#8 : BitVec 8) >>> cI) &&& 1 == 1) = false := by decide

end H8.Props.C10H
