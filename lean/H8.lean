import H8.Basic
import H8.Gen.Consts
import H8.Gen.BusCost
import H8.Spec.BusCost
import H8.Props.C19
