import H8.Drv.Cost
open H8.Drv

def handle (line : String) : String :=
  match line.trimAscii.toString.splitOn " " with
  | "cost" :: rest => costLine rest
  | _ => "bad-case"

partial def loop (hin : IO.FS.Stream) (hout : IO.FS.Stream) : IO Unit := do
  let line ← hin.getLine
  if line.isEmpty then return ()
  hout.putStrLn (handle line)
  loop hin hout

def main : IO Unit := do
  let hin ← IO.getStdin
  let hout ← IO.getStdout
  loop hin hout
  hout.flush
