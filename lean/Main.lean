import H8.Drv.Cost
import H8.Drv.Bus
import H8.Drv.Step
import H8.Drv.Elf
import H8.Drv.Run
open H8.Drv

def handle (line : String) : String :=
  match line.trimAscii.toString.splitOn " " with
  | "cost" :: rest => costLine rest
  | ["bus09", ops] => bus09Line ops
  | ["bus16", ops] => bus16Line ops
  | ["bus17", ops] => bus17Line ops
  | "sweep09" :: rest => sweep09Line rest
  | "step" :: rest => stepLine rest
  | "run" :: rest => runLine rest
  | _ => "bad-case"

partial def loop (hin : IO.FS.Stream) (hout : IO.FS.Stream) : IO Unit := do
  let line ← hin.getLine
  if line.isEmpty then return ()
  match line.trimAscii.toString.splitOn " " with
  | "elf" :: rest => hout.putStrLn (← elfLine rest)
  | _ => hout.putStrLn (handle line)
  loop hin hout

def main : IO Unit := do
  let hin ← IO.getStdin
  let hout ← IO.getStdout
  loop hin hout
  hout.flush
